import Hcl.Spec.Machine
import Hcl.Proofs.AMapLemmas

/-!
# The specification's constant resolution (`Spec.constSweep`, `Spec.elabConsts`)

The sweeps only ever add constants (`Ext`), every state they reach is explained by the
definitions (`SweepInv`), a topological order of the definitions is resolved completely
(`elabConsts_complete`) and the result agrees with any reference table closed under the
definitions (`elabConsts_agrees`).
-/

namespace SF

abbrev CState := List (String × Width) × Spec.Val
def cΓ (s : CState) : String → Option Width := fun k => s.1.lookup k
def cInit : CState := ([], [])

/-- `s'` extends `s`: it knows every constant `s` knows, with the same width and value -/
def Ext (s s' : CState) : Prop :=
  ∀ n, s.2.has n = true → s'.2.has n = true ∧ s'.2.get n = s.2.get n ∧ s'.1.lookup n = s.1.lookup n

/-- what holds of every state the sweeps reach (started from `cInit`) -/
structure SweepInv (defs : List (String × Ex)) (s : CState) : Prop where
  keys : s.1.map (·.1) = s.2.map (·.1)
  nodup : (s.2.map (·.1)).Nodup
  expl : ∀ n, s.2.has n = true → ∃ e, (n, e) ∈ defs ∧ (∀ r ∈ refs e, s.2.has r = true) ∧
      Spec.dv (cΓ s) s.2.get e = some (s.2.get n) ∧ s.1.lookup n = some (Spec.sw (cΓ s) e)

/-- the state agrees with a reference table wherever it is defined -/
def AgreesWith (TΓ : String → Option Width) (Tσ : String → Nat) (s : CState) : Prop :=
  ∀ n, s.2.has n = true → s.1.lookup n = TΓ n ∧ s.2.get n = Tσ n

/-! ### `Val` is an association list -/

theorem has_eq (σ : Spec.Val) (n : String) : σ.has n = AMap.contains σ n := rfl
theorem set_eq (σ : Spec.Val) (n : String) (v : Nat) : σ.set n v = AMap.insert σ n v := rfl
theorem get_eq (σ : Spec.Val) (n : String) : σ.get n = (σ.lookup n).getD 0 := rfl

theorem has_set (σ : Spec.Val) (n : String) (v : Nat) (k : String) :
    (σ.set n v).has k = (σ.has k || k == n) := by
  rw [has_eq, set_eq, AMap.contains_insert]; rfl

theorem get_set (σ : Spec.Val) (n : String) (v : Nat) (k : String) :
    (σ.set n v).get k = if k = n then v else σ.get k := by
  rw [get_eq, set_eq, AMap.lookup_insert]
  by_cases h : k = n
  · simp only [h, if_true]; rfl
  · simp only [h, if_false]; rfl

theorem has_iff_mem (σ : Spec.Val) (n : String) : σ.has n = true ↔ n ∈ σ.map (·.1) :=
  AMap.contains_iff_mem_keys σ n

theorem keys_set_new (σ : Spec.Val) (n : String) (v : Nat) (h : σ.has n = false) :
    (σ.set n v).map (·.1) = σ.map (·.1) ++ [n] := by
  have hk := AMap.keys_insert σ n v
  rw [← has_eq, h] at hk
  simpa [AMap.keys, set_eq] using hk

theorem nodup_set (σ : Spec.Val) (n : String) (v : Nat) (h : (σ.map (·.1)).Nodup) :
    ((σ.set n v).map (·.1)).Nodup :=
  AMap.keys_insert_nodup σ n v h

theorem lookup_none_of_not_mem {α : Type} (ws : List (String × α)) (n : String) (h : n ∉ ws.map (·.1)) :
    ws.lookup n = none := by
  cases hl : ws.lookup n with
  | none => rfl
  | some w =>
    exfalso; apply h
    have hc : AMap.contains ws n = true := by rw [AMap.contains_eq_isSome, hl]; rfl
    exact (AMap.contains_iff_mem_keys ws n).mp hc

theorem lookup_append_ne {α : Type} (ws : List (String × α)) (n : String) (w : α) (k : String) (h : k ≠ n) :
    (ws ++ [(n, w)]).lookup k = ws.lookup k := by
  rw [AMap.lookup_append_single]
  cases ws.lookup k with
  | none => simp [h]
  | some x => rfl

theorem lookup_append_self {α : Type} (ws : List (String × α)) (n : String) (w : α) (h : ws.lookup n = none) :
    (ws ++ [(n, w)]).lookup n = some w := by
  rw [AMap.lookup_append_single, h]; simp

/-! ### one step of a sweep -/

/-- what `constSweep` does with one definition -/
def cStep (n : String) (e : Ex) (s : CState) : CState :=
  if s.2.has n || !((refs e).all s.2.has) then s
  else match Spec.dv (cΓ s) s.2.get e with
    | some v => (s.1 ++ [(n, Spec.sw (cΓ s) e)], s.2.set n v)
    | none => s

theorem constSweep_nil (s : CState) : Spec.constSweep [] s = s := by
  unfold Spec.constSweep; rfl

theorem constSweep_cons (n : String) (e : Ex) (rest : List (String × Ex)) (s : CState) :
    Spec.constSweep ((n, e) :: rest) s = Spec.constSweep rest (cStep n e s) := by
  obtain ⟨ws, σ⟩ := s
  rw [Spec.constSweep]
  unfold cStep cΓ
  by_cases hc : (σ.has n || !((refs e).all σ.has)) = true
  · simp only [hc, if_true]
  · simp only [hc]
    cases hd : Spec.dv (fun k => List.lookup k ws) σ.get e with
    | none => simp only [Bool.false_eq_true, if_false]
    | some v => simp only [Bool.false_eq_true, if_false]

theorem cStep_cases (n : String) (e : Ex) (s : CState) :
    cStep n e s = s ∨
    (s.2.has n = false ∧ (∀ r ∈ refs e, s.2.has r = true) ∧
      ∃ v, Spec.dv (cΓ s) s.2.get e = some v ∧
        cStep n e s = (s.1 ++ [(n, Spec.sw (cΓ s) e)], s.2.set n v)) := by
  unfold cStep
  by_cases hc : (s.2.has n || !((refs e).all s.2.has)) = true
  · left; simp only [hc, if_true]
  · simp only [hc, Bool.false_eq_true, if_false]
    cases hd : Spec.dv (cΓ s) s.2.get e with
    | none => left; rfl
    | some v =>
      right
      have hc' : (s.2.has n || !((refs e).all s.2.has)) = false := by simpa using hc
      rw [Bool.or_eq_false_iff] at hc'
      refine ⟨hc'.1, ?_, v, rfl, rfl⟩
      have h2 : (refs e).all s.2.has = true := by simpa using hc'.2
      exact fun r hr => List.all_eq_true.mp h2 r hr

/-- a definition whose names are all known and whose value exists is known after its step -/
theorem cStep_has (n : String) (e : Ex) (s : CState) (hrefs : ∀ r ∈ refs e, s.2.has r = true)
    (hgood : Spec.dv (cΓ s) s.2.get e ≠ none) : (cStep n e s).2.has n = true := by
  unfold cStep
  cases hn : s.2.has n with
  | true => simp only [Bool.true_or, if_true]; exact hn
  | false =>
    have h2 : (refs e).all s.2.has = true := List.all_eq_true.mpr hrefs
    simp only [h2, Bool.not_true, Bool.or_false, Bool.false_eq_true, if_false]
    cases hd : Spec.dv (cΓ s) s.2.get e with
    | none => exact absurd hd hgood
    | some v =>
      show (s.2.set n v).has n = true
      rw [has_set]; simp

/-! ### extension -/

theorem Ext.refl (s : CState) : Ext s s := fun _ h => ⟨h, rfl, rfl⟩

theorem Ext.trans {s s' s'' : CState} (h1 : Ext s s') (h2 : Ext s' s'') : Ext s s'' := by
  intro n hn
  obtain ⟨a1, b1, c1⟩ := h1 n hn
  obtain ⟨a2, b2, c2⟩ := h2 n a1
  exact ⟨a2, b2.trans b1, c2.trans c1⟩

theorem ext_add (s : CState) (n : String) (w : Width) (v : Nat) (hn : s.2.has n = false) :
    Ext s (s.1 ++ [(n, w)], s.2.set n v) := by
  intro k hk
  have hne : k ≠ n := by intro e; subst e; rw [hn] at hk; cases hk
  refine ⟨?_, ?_, ?_⟩
  · show (s.2.set n v).has k = true
    rw [has_set, hk]; rfl
  · show (s.2.set n v).get k = s.2.get k
    rw [get_set]; simp only [hne, if_false]
  · exact lookup_append_ne s.1 n w k hne

theorem ext_cStep (n : String) (e : Ex) (s : CState) : Ext s (cStep n e s) := by
  rcases cStep_cases n e s with h | ⟨hn, _, v, _, h⟩
  · rw [h]; exact Ext.refl s
  · rw [h]; exact ext_add s n _ v hn

theorem ext_constSweep' (l : List (String × Ex)) (s : CState) : Ext s (Spec.constSweep l s) := by
  induction l generalizing s with
  | nil => rw [constSweep_nil]; exact Ext.refl s
  | cons p rest ih =>
    obtain ⟨n, e⟩ := p
    rw [constSweep_cons]
    exact (ext_cStep n e s).trans (ih _)

/-- (C2) a sweep only adds constants (the hypothesis on the key lists is not needed) -/
theorem ext_constSweep (l : List (String × Ex)) (s : CState) (_h : s.1.map (·.1) = s.2.map (·.1)) :
    Ext s (Spec.constSweep l s) := ext_constSweep' l s

theorem elabConsts_zero (defs : List (String × Ex)) (acc : CState) : Spec.elabConsts defs 0 acc = acc := rfl
theorem elabConsts_succ (defs : List (String × Ex)) (k : Nat) (acc : CState) :
    Spec.elabConsts defs (k + 1) acc = Spec.elabConsts defs k (Spec.constSweep defs acc) := rfl

theorem elabConsts_add (defs : List (String × Ex)) (j m : Nat) (acc : CState) :
    Spec.elabConsts defs (j + m) acc = Spec.elabConsts defs m (Spec.elabConsts defs j acc) := by
  induction j generalizing acc with
  | zero => rw [Nat.zero_add]; rfl
  | succ j ih =>
    rw [show j + 1 + m = (j + m) + 1 by omega, elabConsts_succ, elabConsts_succ, ih]

/-- the last sweep of `k+1` sweeps -/
theorem elabConsts_succ_last (defs : List (String × Ex)) (k : Nat) (acc : CState) :
    Spec.elabConsts defs (k + 1) acc = Spec.constSweep defs (Spec.elabConsts defs k acc) := by
  rw [elabConsts_add]; rfl

theorem ext_elabConsts' (defs : List (String × Ex)) (k : Nat) (s : CState) :
    Ext s (Spec.elabConsts defs k s) := by
  induction k generalizing s with
  | zero => exact Ext.refl s
  | succ k ih =>
    rw [elabConsts_succ]
    exact (ext_constSweep' defs s).trans (ih _)

theorem ext_elabConsts (defs : List (String × Ex)) (k : Nat) (s : CState)
    (_h : s.1.map (·.1) = s.2.map (·.1)) : Ext s (Spec.elabConsts defs k s) := ext_elabConsts' defs k s

theorem elabConsts_mono' (defs : List (String × Ex)) (j k : Nat) (h : j ≤ k) (acc : CState) :
    Ext (Spec.elabConsts defs j acc) (Spec.elabConsts defs k acc) := by
  obtain ⟨m, rfl⟩ := Nat.le.dest h
  rw [elabConsts_add]
  exact ext_elabConsts' defs m _

/-- (C2) more sweeps only add constants -/
theorem elabConsts_mono (defs : List (String × Ex)) (j k : Nat) (h : j ≤ k) :
    Ext (Spec.elabConsts defs j cInit) (Spec.elabConsts defs k cInit) :=
  elabConsts_mono' defs j k h cInit

/-! ### the invariant, progress and agreement (need the congruence of `sw` and `dv`) -/

theorem SweepInv.has_iff_lookup {defs : List (String × Ex)} {s : CState} (hinv : SweepInv defs s) (n : String) :
    s.2.has n = true ↔ (s.1.lookup n).isSome = true := by
  rw [has_iff_mem, ← hinv.keys, ← AMap.contains_eq_isSome]
  exact (AMap.contains_iff_mem_keys s.1 n).symm

theorem SweepInv.dom_defs {defs : List (String × Ex)} {s : CState} (hinv : SweepInv defs s) (n : String)
    (h : s.2.has n = true) : n ∈ defs.map (·.1) := by
  obtain ⟨e, he, _⟩ := hinv.expl n h
  exact List.mem_map.mpr ⟨(n, e), he, rfl⟩

theorem has_iff_lookup {defs : List (String × Ex)} {s : CState} {n : String} (hinv : SweepInv defs s) :
    s.2.has n = true ↔ (s.1.lookup n).isSome = true := hinv.has_iff_lookup n

theorem dom_defs {defs : List (String × Ex)} {s : CState} {n : String} (hinv : SweepInv defs s)
    (h : s.2.has n = true) : n ∈ defs.map (·.1) := hinv.dom_defs n h

theorem SweepInv.lookup_none {defs : List (String × Ex)} {s : CState} (hinv : SweepInv defs s) (n : String)
    (h : s.2.has n = false) : s.1.lookup n = none := by
  apply lookup_none_of_not_mem
  rw [hinv.keys]
  intro hm
  rw [(has_iff_mem s.2 n).mpr hm] at h; cases h

theorem sweepInv_init (defs : List (String × Ex)) : SweepInv defs cInit :=
  ⟨rfl, List.nodup_nil, fun n h => by cases h⟩

section
variable (sw_congr : ∀ (Γ Δ : String → Option Width) (e : Ex), (∀ n ∈ refs e, Γ n = Δ n) → Spec.sw Γ e = Spec.sw Δ e)
variable (dv_congr : ∀ (Γ Δ : String → Option Width) (σ τ : String → Nat) (e : Ex),
  (∀ n ∈ refs e, Γ n = Δ n) → (∀ n ∈ refs e, σ n = τ n) → Spec.dv Γ σ e = Spec.dv Δ τ e)

include sw_congr in
theorem Ext.sw_eq {s s' : CState} (h : Ext s s') (e : Ex) (hrefs : ∀ r ∈ refs e, s.2.has r = true) :
    Spec.sw (cΓ s') e = Spec.sw (cΓ s) e :=
  sw_congr _ _ e (fun r hr => (h r (hrefs r hr)).2.2)

include dv_congr in
theorem Ext.dv_eq {s s' : CState} (h : Ext s s') (e : Ex) (hrefs : ∀ r ∈ refs e, s.2.has r = true) :
    Spec.dv (cΓ s') s'.2.get e = Spec.dv (cΓ s) s.2.get e :=
  dv_congr _ _ _ _ e (fun r hr => (h r (hrefs r hr)).2.2) (fun r hr => (h r (hrefs r hr)).2.1)

include sw_congr dv_congr in
theorem cStep_inv {defs : List (String × Ex)} (n : String) (e : Ex) (hmem : (n, e) ∈ defs) (s : CState)
    (hinv : SweepInv defs s) : SweepInv defs (cStep n e s) := by
  rcases cStep_cases n e s with h | ⟨hn, hrefs, v, hd, h⟩
  · rw [h]; exact hinv
  · have hext : Ext s (cStep n e s) := ext_cStep n e s
    rw [h] at hext ⊢
    refine ⟨?_, ?_, ?_⟩
    · show (s.1 ++ [(n, Spec.sw (cΓ s) e)]).map (·.1) = (s.2.set n v).map (·.1)
      rw [keys_set_new _ _ _ hn, List.map_append, hinv.keys]; rfl
    · exact nodup_set s.2 n v hinv.nodup
    · intro k hk
      have hk' : (s.2.set n v).has k = true := hk
      rw [has_set] at hk'
      cases hks : s.2.has k with
      | true =>
        obtain ⟨e', hm', hr', hd', hw'⟩ := hinv.expl k hks
        obtain ⟨_, hg, hl⟩ := hext k hks
        refine ⟨e', hm', fun r hr => (hext r (hr' r hr)).1, ?_, ?_⟩
        · rw [Ext.dv_eq dv_congr hext e' hr', hd', hg]
        · rw [Ext.sw_eq sw_congr hext e' hr', hl, hw']
      | false =>
        rw [hks, Bool.false_or] at hk'
        have hkn : k = n := by simpa using hk'
        subst hkn
        refine ⟨e, hmem, fun r hr => (hext r (hrefs r hr)).1, ?_, ?_⟩
        · rw [Ext.dv_eq dv_congr hext e hrefs, hd]
          show some v = some ((s.2.set k v).get k)
          rw [get_set]; simp
        · rw [Ext.sw_eq sw_congr hext e hrefs]
          exact lookup_append_self s.1 k _ (hinv.lookup_none k hks)

include sw_congr dv_congr in
theorem constSweep_inv {defs : List (String × Ex)} {s : CState} (l : List (String × Ex)) (hl : ∀ p ∈ l, p ∈ defs)
    (hinv : SweepInv defs s) : SweepInv defs (Spec.constSweep l s) := by
  induction l generalizing s with
  | nil => rw [constSweep_nil]; exact hinv
  | cons p rest ih =>
    obtain ⟨n, e⟩ := p
    rw [constSweep_cons]
    exact ih (fun q hq => hl q (List.mem_cons_of_mem _ hq))
      (cStep_inv sw_congr dv_congr n e (hl _ List.mem_cons_self) s hinv)

include sw_congr dv_congr in
theorem elabConsts_inv' (defs : List (String × Ex)) (k : Nat) (s : CState) (hinv : SweepInv defs s) :
    SweepInv defs (Spec.elabConsts defs k s) := by
  induction k generalizing s with
  | zero => exact hinv
  | succ k ih =>
    rw [elabConsts_succ]
    exact ih _ (constSweep_inv sw_congr dv_congr defs (fun _ h => h) hinv)

include sw_congr dv_congr in
/-- (C1) every state of the constant resolution is explained by the definitions -/
theorem elabConsts_inv (defs : List (String × Ex)) (k : Nat) : SweepInv defs (Spec.elabConsts defs k cInit) :=
  elabConsts_inv' sw_congr dv_congr defs k cInit (sweepInv_init defs)

/-! ### progress -/

include dv_congr in
theorem sweep_progress' (l : List (String × Ex)) (s U : CState)
    (hU : Ext (Spec.constSweep l s) U) (x : String) (e : Ex) (hx : (x, e) ∈ l)
    (hrefs : ∀ r ∈ refs e, s.2.has r = true) (hgood : Spec.dv (cΓ U) U.2.get e ≠ none) :
    (Spec.constSweep l s).2.has x = true := by
  induction l generalizing s with
  | nil => cases hx
  | cons p rest ih =>
    obtain ⟨n, e'⟩ := p
    rw [constSweep_cons] at hU ⊢
    have h1 : Ext s (cStep n e' s) := ext_cStep n e' s
    have h2 : Ext (cStep n e' s) (Spec.constSweep rest (cStep n e' s)) := ext_constSweep' rest _
    rcases List.mem_cons.mp hx with heq | hin
    · cases heq
      have hsU : Ext s U := h1.trans (h2.trans hU)
      have hd : Spec.dv (cΓ s) s.2.get e ≠ none := by
        rw [← Ext.dv_eq dv_congr hsU e hrefs]; exact hgood
      exact (h2 x (cStep_has x e s hrefs hd)).1
    · exact ih (cStep n e' s) hU hin (fun r hr => (h1 r (hrefs r hr)).1)

set_option linter.unusedSectionVars false in
include sw_congr dv_congr in
/-- (C3) a definition whose names are known before a sweep, and whose value exists in a later
    state, is known after the sweep -/
theorem sweep_progress (defs l : List (String × Ex)) (s U : CState) (_hinv : SweepInv defs s)
    (_hl : ∀ p ∈ l, p ∈ defs) (hU : Ext (Spec.constSweep l s) U) (x : String) (e : Ex) (hx : (x, e) ∈ l)
    (hrefs : ∀ r ∈ refs e, s.2.has r = true) (hgood : Spec.dv (cΓ U) U.2.get e ≠ none) :
    (Spec.constSweep l s).2.has x = true :=
  sweep_progress' dv_congr l s U hU x e hx hrefs hgood

include dv_congr in
theorem complete_aux (defs : List (String × Ex)) (order : List String)
    (htopo : ∀ pre x post, order = pre ++ x :: post → ∃ e, (x, e) ∈ defs ∧ ∀ r ∈ refs e, r ∈ pre)
    (K : Nat) (hK : order.length ≤ K)
    (hgood : ∀ x ∈ order, ∀ e, (x, e) ∈ defs →
      (∀ r ∈ refs e, (Spec.elabConsts defs K cInit).2.has r = true) →
      Spec.dv (cΓ (Spec.elabConsts defs K cInit)) (Spec.elabConsts defs K cInit).2.get e ≠ none)
    (j : Nat) : ∀ pre post, order = pre ++ post → pre.length = j →
      ∀ x ∈ pre, (Spec.elabConsts defs j cInit).2.has x = true := by
  induction j with
  | zero =>
    intro pre post _ hlen x hx
    have : pre = [] := List.length_eq_zero_iff.mp hlen
    subst this; cases hx
  | succ j ih =>
    intro pre post hord hlen x hx
    rcases List.eq_nil_or_concat pre with hnil | ⟨L, b, hpre⟩
    · subst hnil; cases hx
    · rw [List.concat_eq_append] at hpre
      subst hpre
      have hLlen : L.length = j := by simpa using hlen
      have hord' : order = L ++ b :: post := by rw [hord, List.append_assoc]; rfl
      have ihL := ih L (b :: post) hord' hLlen
      have hstep : Ext (Spec.elabConsts defs j cInit) (Spec.elabConsts defs (j + 1) cInit) :=
        elabConsts_mono defs j (j + 1) (Nat.le_succ j)
      rcases List.mem_append.mp hx with hxL | hxb
      · exact (hstep x (ihL x hxL)).1
      · have hxb' : x = b := by simpa using hxb
        subst hxb'
        obtain ⟨e, hmem, hre⟩ := htopo L x post hord'
        have hj1 : j + 1 ≤ K := by
          have : order.length = L.length + (post.length + 1) := by rw [hord']; simp
          omega
        have hrefs : ∀ r ∈ refs e, (Spec.elabConsts defs j cInit).2.has r = true := fun r hr => ihL r (hre r hr)
        have hjK : Ext (Spec.elabConsts defs j cInit) (Spec.elabConsts defs K cInit) :=
          elabConsts_mono defs j K (by omega)
        have hxo : x ∈ order := by rw [hord']; simp
        have hg := hgood x hxo e hmem (fun r hr => (hjK r (hrefs r hr)).1)
        have hU : Ext (Spec.constSweep defs (Spec.elabConsts defs j cInit)) (Spec.elabConsts defs K cInit) := by
          rw [← elabConsts_succ_last]; exact elabConsts_mono defs (j + 1) K hj1
        rw [elabConsts_succ_last]
        exact sweep_progress' dv_congr defs _ _ hU x e hmem hrefs hg

set_option linter.unusedSectionVars false in
include sw_congr dv_congr in
/-- (C3) constants that can be put in dependency order are all resolved after as many sweeps
    as there are constants in the order, provided their values exist in the final state -/
theorem elabConsts_complete (defs : List (String × Ex)) (order : List String)
    (htopo : ∀ pre x post, order = pre ++ x :: post → ∃ e, (x, e) ∈ defs ∧ ∀ r ∈ refs e, r ∈ pre)
    (K : Nat) (hK : order.length ≤ K)
    (hgood : ∀ x ∈ order, ∀ e, (x, e) ∈ defs →
      (∀ r ∈ refs e, (Spec.elabConsts defs K cInit).2.has r = true) →
      Spec.dv (cΓ (Spec.elabConsts defs K cInit)) (Spec.elabConsts defs K cInit).2.get e ≠ none) :
    ∀ x ∈ order, (Spec.elabConsts defs K cInit).2.has x = true := by
  intro x hx
  have h := complete_aux dv_congr defs order htopo K hK hgood order.length order [] (by simp) rfl x hx
  exact (elabConsts_mono defs order.length K hK x h).1

/-! ### agreement with a reference table -/

include sw_congr dv_congr in
theorem cStep_agrees {defs : List (String × Ex)} (TΓ : String → Option Width) (Tσ : String → Nat)
    (hT : ∀ x e, (x, e) ∈ defs → (∀ r ∈ refs e, (TΓ r).isSome = true) → ∀ v, Spec.dv TΓ Tσ e = some v →
      TΓ x = some (Spec.sw TΓ e) ∧ Tσ x = v)
    (n : String) (e : Ex) (hmem : (n, e) ∈ defs) (s : CState) (hinv : SweepInv defs s)
    (hag : AgreesWith TΓ Tσ s) : AgreesWith TΓ Tσ (cStep n e s) := by
  rcases cStep_cases n e s with h | ⟨hn, hrefs, v, hd, h⟩
  · rw [h]; exact hag
  · have hext : Ext s (cStep n e s) := ext_cStep n e s
    rw [h] at hext ⊢
    intro k hk
    have hk' : (s.2.set n v).has k = true := hk
    rw [has_set] at hk'
    cases hks : s.2.has k with
    | true =>
      obtain ⟨_, hg, hl⟩ := hext k hks
      obtain ⟨a, b⟩ := hag k hks
      exact ⟨hl.trans a, hg.trans b⟩
    | false =>
      rw [hks, Bool.false_or] at hk'
      have hkn : k = n := by simpa using hk'
      subst hkn
      have hΓ : ∀ r ∈ refs e, cΓ s r = TΓ r := fun r hr => (hag r (hrefs r hr)).1
      have hσ : ∀ r ∈ refs e, s.2.get r = Tσ r := fun r hr => (hag r (hrefs r hr)).2
      have hdT : Spec.dv TΓ Tσ e = some v := by rw [← dv_congr _ _ _ _ e hΓ hσ]; exact hd
      have hsome : ∀ r ∈ refs e, (TΓ r).isSome = true := by
        intro r hr
        rw [← hΓ r hr]
        exact (hinv.has_iff_lookup r).mp (hrefs r hr)
      obtain ⟨a, b⟩ := hT k e hmem hsome v hdT
      constructor
      · show (s.1 ++ [(k, Spec.sw (cΓ s) e)]).lookup k = TΓ k
        rw [lookup_append_self s.1 k _ (hinv.lookup_none k hks), a, sw_congr _ _ e hΓ]
      · show (s.2.set k v).get k = Tσ k
        rw [get_set, b]; simp

include sw_congr dv_congr in
theorem constSweep_agrees {defs : List (String × Ex)} (TΓ : String → Option Width) (Tσ : String → Nat)
    (hT : ∀ x e, (x, e) ∈ defs → (∀ r ∈ refs e, (TΓ r).isSome = true) → ∀ v, Spec.dv TΓ Tσ e = some v →
      TΓ x = some (Spec.sw TΓ e) ∧ Tσ x = v)
    (l : List (String × Ex)) (hl : ∀ p ∈ l, p ∈ defs) (s : CState) (hinv : SweepInv defs s)
    (hag : AgreesWith TΓ Tσ s) : AgreesWith TΓ Tσ (Spec.constSweep l s) := by
  induction l generalizing s with
  | nil => rw [constSweep_nil]; exact hag
  | cons p rest ih =>
    obtain ⟨n, e⟩ := p
    rw [constSweep_cons]
    have hm : (n, e) ∈ defs := hl _ List.mem_cons_self
    exact ih (fun q hq => hl q (List.mem_cons_of_mem _ hq)) _
      (cStep_inv sw_congr dv_congr n e hm s hinv)
      (cStep_agrees sw_congr dv_congr TΓ Tσ hT n e hm s hinv hag)

include sw_congr dv_congr in
theorem elabConsts_agrees' (defs : List (String × Ex)) (TΓ : String → Option Width) (Tσ : String → Nat)
    (hT : ∀ x e, (x, e) ∈ defs → (∀ r ∈ refs e, (TΓ r).isSome = true) → ∀ v, Spec.dv TΓ Tσ e = some v →
      TΓ x = some (Spec.sw TΓ e) ∧ Tσ x = v)
    (k : Nat) (s : CState) (hinv : SweepInv defs s) (hag : AgreesWith TΓ Tσ s) :
    AgreesWith TΓ Tσ (Spec.elabConsts defs k s) := by
  induction k generalizing s with
  | zero => exact hag
  | succ k ih =>
    rw [elabConsts_succ]
    exact ih _ (constSweep_inv sw_congr dv_congr defs (fun _ h => h) hinv)
      (constSweep_agrees sw_congr dv_congr TΓ Tσ hT defs (fun _ h => h) s hinv hag)

include sw_congr dv_congr in
/-- (C4) the resolved constants agree with every table that is closed under the definitions -/
theorem elabConsts_agrees (defs : List (String × Ex)) (TΓ : String → Option Width) (Tσ : String → Nat)
    (hT : ∀ x e, (x, e) ∈ defs → (∀ r ∈ refs e, (TΓ r).isSome = true) → ∀ v, Spec.dv TΓ Tσ e = some v →
      TΓ x = some (Spec.sw TΓ e) ∧ Tσ x = v)
    (k : Nat) : AgreesWith TΓ Tσ (Spec.elabConsts defs k cInit) :=
  elabConsts_agrees' sw_congr dv_congr defs TΓ Tσ hT k cInit (sweepInv_init defs) (fun n h => by cases h)

end

end SF

#print axioms SF.elabConsts_inv
#print axioms SF.elabConsts_mono
#print axioms SF.elabConsts_complete
#print axioms SF.elabConsts_agrees
