import Hcl.Proofs.Settle
import Hcl.Proofs.AcceptedValid
open Rust

/-!
# C01 — each cycle's wire values are a consistent, order-independent settlement

`Action.defn fl regs mem σ a` is the definition of the wire that action `a` drives: the assigned
expression truncated to the declared width, the program register selected by the source wire, or
the little-endian memory bytes at the address wire — evaluated in the valuation `σ`, with the
register file and memory *as they were at the start of the cycle*.
-/

/-- the actions after the value-writing ones (status, memory write, register writes) leave the wire values alone -/
theorem execFinal_values (fl : Flags) : ∀ (fin : List Action) (s t : State),
    (∀ a ∈ fin, a.isPure = false) → execActions fl fin s = .ok t → t.values = s.values := by
  intro fin
  induction fin with
  | nil => intro s t _ h; simp [execActions, pure, Except.pure] at h; rw [h]
  | cons a rest ih =>
    intro s t hp h
    simp only [execActions] at h
    obtain ⟨s₁, h₁, h₂⟩ := bind_ok h
    have hv : s₁.values = s.values := by
      have hpa := hp a (by simp)
      cases a with
      | assign _ _ _ => simp [Action.isPure] at hpa
      | readReg _ _ => simp [Action.isPure] at hpa
      | readMem _ _ _ _ _ => simp [Action.isPure] at hpa
      | writeReg number inp =>
        simp only [execAction] at h₁
        obtain ⟨n, _, h₁⟩ := bind_ok h₁
        split at h₁
        · obtain ⟨i, _, h₁⟩ := bind_ok h₁
          simp only [pure, Except.pure] at h₁; cases h₁; rfl
        · simp only [pure, Except.pure] at h₁; cases h₁; rfl
      | writeMem isWrite address inp bytes =>
        have key : ∀ (b : Bool), (if b = true then (do
              let a ← getOrPanic s.values address
              let i ← getOrPanic s.values inp
              pure { s with mem := s.mem.write (a.bits % U64) i.bits bytes } : E State)
            else pure s) = .ok s₁ → s₁.values = s.values := by
          intro b hb
          cases b with
          | false => simp [pure, Except.pure] at hb; rw [← hb]
          | true =>
            simp only [↓reduceIte] at hb
            obtain ⟨a', _, hb⟩ := bind_ok hb
            obtain ⟨i, _, hb⟩ := bind_ok hb
            simp only [pure, Except.pure] at hb; cases hb; rfl
        cases isWrite with
        | none =>
          simp only [execAction] at h₁
          exact key true h₁
        | some wr =>
          simp only [execAction] at h₁
          obtain ⟨v, _, h₁⟩ := bind_ok h₁
          exact key _ h₁
      | setStatus w =>
        simp only [execAction] at h₁
        obtain ⟨v, _, h₁⟩ := bind_ok h₁
        simp only [pure, Except.pure] at h₁; cases h₁; rfl
    rw [ih s₁ t (fun b hb => hp b (List.mem_cons_of_mem _ hb)) h₂, hv]

theorem execActions_append (fl : Flags) : ∀ (l₁ l₂ : List Action) (s : State),
    execActions fl (l₁ ++ l₂) s = (execActions fl l₁ s >>= fun s₁ => execActions fl l₂ s₁) := by
  intro l₁
  induction l₁ with
  | nil => intro l₂ s; simp [execActions, bind, Except.bind, pure, Except.pure]
  | cons a rest ih =>
    intro l₂ s
    simp only [List.cons_append, execActions, bind, Except.bind]
    cases execAction fl s a with
    | error e => rfl
    | ok s₁ => simpa [bind, Except.bind] using ih l₂ s₁

/-- **C01, consistency.**  If the action list is a valid schedule — value-writing actions first, each
    wire driven once, no action reading a wire that it or a later action drives — then after the
    actions of a cycle every assigned wire and every built-in component output holds exactly the value
    its definition yields *from the values the wires hold at the end of that same cycle*, the register
    file and memory read being those of the start of the cycle. -/
theorem C01_settlement (fl : Flags) (pre fin : List Action) (s t : State)
    (hv : ValidFrom [] pre) (hfin : ∀ a ∈ fin, a.isPure = false)
    (hex : execActions fl (pre ++ fin) s = .ok t) :
    ∀ a ∈ pre, ∃ v, a.defn fl s.regs s.mem t.values.toEnv = .ok v ∧ t.values.toEnv a.out = some v := by
  rw [execActions_append] at hex
  obtain ⟨s₁, h₁, h₂⟩ := bind_ok hex
  obtain ⟨_, _, hall⟩ := settled_pure fl pre [] s s₁ hv h₁
  have hvals := execFinal_values fl fin s₁ t hfin h₂
  intro a ha
  rw [hvals]
  exact hall a ha

/-- wires nobody drives in this cycle (constants, register-bank outputs) keep their start-of-cycle values -/
theorem C01_stable (fl : Flags) (pre fin : List Action) (s t : State)
    (hv : ValidFrom [] pre) (hfin : ∀ a ∈ fin, a.isPure = false)
    (hex : execActions fl (pre ++ fin) s = .ok t) (x : String) (hx : x ∉ pre.map Action.out) :
    t.values.toEnv x = s.values.toEnv x := by
  rw [execActions_append] at hex
  obtain ⟨s₁, h₁, h₂⟩ := bind_ok hex
  rw [execFinal_values fl fin s₁ t hfin h₂]
  exact (execPure_stable fl pre s s₁ x (validFrom_pure pre [] hv) h₁ hx).1

/-- each action reads only wires of `base` or outputs of actions before it -/
def ReadsEarlier (base : List String) : List Action → Prop
  | [] => True
  | a :: rest => (∀ x ∈ a.reads, x ∈ base) ∧ ReadsEarlier (a.out :: base) rest

/-- **uniqueness of the settlement**: two valuations that satisfy every definition and agree on the
    undriven wires agree on every driven wire -/
theorem settled_unique (fl : Flags) (regs : List Nat) (mem : Mem) : ∀ (acts : List Action) (base : List String) (τ₁ τ₂ : Env),
    ReadsEarlier base acts → agreeOn base τ₁ τ₂ →
    (∀ a ∈ acts, ∃ v, a.defn fl regs mem τ₁ = .ok v ∧ τ₁ a.out = some v) →
    (∀ a ∈ acts, ∃ v, a.defn fl regs mem τ₂ = .ok v ∧ τ₂ a.out = some v) →
    ∀ a ∈ acts, τ₁ a.out = τ₂ a.out := by
  intro acts
  induction acts with
  | nil => intro _ _ _ _ _ _ _ a ha; simp at ha
  | cons a rest ih =>
    intro base τ₁ τ₂ hre hag h₁ h₂ b hb
    have ha : τ₁ a.out = τ₂ a.out := by
      obtain ⟨v₁, hd₁, ho₁⟩ := h₁ a (by simp)
      obtain ⟨v₂, hd₂, ho₂⟩ := h₂ a (by simp)
      have : a.defn fl regs mem τ₁ = a.defn fl regs mem τ₂ :=
        defn_local fl regs mem a τ₁ τ₂ (fun x hx => hag x (hre.1 x hx))
      rw [hd₁, hd₂] at this
      cases this
      rw [ho₁, ho₂]
    rcases List.mem_cons.mp hb with rfl | hb
    · exact ha
    · refine ih (a.out :: base) τ₁ τ₂ hre.2 ?_ (fun c hc => h₁ c (List.mem_cons_of_mem _ hc))
        (fun c hc => h₂ c (List.mem_cons_of_mem _ hc)) b hb
      intro x hx
      rcases List.mem_cons.mp hx with rfl | hx
      · exact ha
      · exact hag x hx

/-- **C01/C12, order independence.**  Two valid schedules of the same set of actions, run from the
    same state, end the cycle with the same value on every wire. -/
theorem C01_order_independent (fl : Flags) (pre₁ pre₂ fin₁ fin₂ : List Action) (s t₁ t₂ : State) (base : List String)
    (hv₁ : ValidFrom [] pre₁) (hv₂ : ValidFrom [] pre₂)
    (hsame : ∀ a, a ∈ pre₁ ↔ a ∈ pre₂)
    (hre : ReadsEarlier base pre₁) (hbase : ∀ x ∈ base, x ∉ pre₁.map Action.out)
    (hf₁ : ∀ a ∈ fin₁, a.isPure = false) (hf₂ : ∀ a ∈ fin₂, a.isPure = false)
    (h₁ : execActions fl (pre₁ ++ fin₁) s = .ok t₁) (h₂ : execActions fl (pre₂ ++ fin₂) s = .ok t₂) :
    ∀ x, t₁.values.toEnv x = t₂.values.toEnv x := by
  intro x
  have hout : ∀ y, y ∈ pre₁.map Action.out ↔ y ∈ pre₂.map Action.out := by
    intro y; simp only [List.mem_map]
    constructor
    · rintro ⟨a, ha, rfl⟩; exact ⟨a, (hsame a).mp ha, rfl⟩
    · rintro ⟨a, ha, rfl⟩; exact ⟨a, (hsame a).mpr ha, rfl⟩
  by_cases hx : x ∈ pre₁.map Action.out
  · obtain ⟨a, ha, rfl⟩ := List.mem_map.mp hx
    have hag : agreeOn base t₁.values.toEnv t₂.values.toEnv := by
      intro y hy
      rw [C01_stable fl pre₁ fin₁ s t₁ hv₁ hf₁ h₁ y (hbase y hy),
          C01_stable fl pre₂ fin₂ s t₂ hv₂ hf₂ h₂ y (fun h => hbase y hy ((hout y).mpr h))]
    exact settled_unique fl s.regs s.mem pre₁ base _ _ hre hag
      (C01_settlement fl pre₁ fin₁ s t₁ hv₁ hf₁ h₁)
      (fun b hb => C01_settlement fl pre₂ fin₂ s t₂ hv₂ hf₂ h₂ b ((hsame b).mp hb)) a ha
  · rw [C01_stable fl pre₁ fin₁ s t₁ hv₁ hf₁ h₁ x hx,
        C01_stable fl pre₂ fin₂ s t₂ hv₂ hf₂ h₂ x (fun h => hx ((hout x).mpr h))]

/-! Non-vacuity: a concrete valid schedule in which statement order differs from dependency order. -/
def exActs : List Action :=
  [.assign "a" (.const ⟨3, .bits 8⟩) (.bits 8), .readReg "a" "reg_outputA",
   .assign "b" (.bin .add (.wire "reg_outputA") (.wire "a")) (.bits 64)]
example : ValidFrom [] exActs := by
  simp [exActs, ValidFrom, Action.isPure, Action.out, Action.reads, refs]

/-! ### for every accepted program (no hypothesis about the schedule) -/

theorem sched_readsEarlier : ∀ (l : List Action) (avail base : List String), (∀ n ∈ avail, n ∈ base) →
    Sched avail l → (∀ a ∈ l, a.isPure = true) → ReadsEarlier base l
  | [], _, _, _, _, _ => trivial
  | a :: rest, avail, base, hsub, hs, hp => by
    refine ⟨fun x hx => hsub x (hs.1 x hx), ?_⟩
    apply sched_readsEarlier rest (avail ++ a.writes) (a.out :: base) _ hs.2 (fun b hb => hp b (List.mem_cons_of_mem _ hb))
    intro n hn
    rcases List.mem_append.mp hn with h | h
    · exact List.mem_cons_of_mem _ (hsub n h)
    · rw [pure_writes a (hp a List.mem_cons_self)] at h
      simp at h; subst h; exact List.mem_cons_self

/-- **C01 for every accepted program.**  Whatever order the hash tables were iterated in, the action list of an
    accepted program splits into value-writing actions `pre` and state-changing actions `fin` such that, after any
    cycle that completes, every driven wire equals its definition evaluated in the final valuation (with the
    start-of-cycle registers and memory), wires nobody drives keep their values, and that valuation is the
    only one with this property that agrees with it on the register outputs and constants. -/
theorem C01_accepted (fl : Flags) (cls : CharClass) (o : Orders) (stmts : List Stmt) (p : Program)
    (ho : OrdersOK o) (hwf : StmtsWF stmts)
    (h : Program.new fl cls o y86FixedFunctions stmts = .ok p) :
    ∃ (pre fin : List Action) (known : List String), p.actions = pre ++ fin ∧ (∀ a ∈ fin, a.isPure = false) ∧
      ∀ (s t : State), execActions fl p.actions s = .ok t →
        (∀ a ∈ pre, ∃ v, a.defn fl s.regs s.mem t.values.toEnv = .ok v ∧ t.values.toEnv a.out = some v) ∧
        (∀ x, x ∉ pre.map Action.out → t.values.toEnv x = s.values.toEnv x) ∧
        (∀ τ : Env, agreeOn known τ t.values.toEnv →
          (∀ a ∈ pre, ∃ v, a.defn fl s.regs s.mem τ = .ok v ∧ τ a.out = some v) →
          ∀ a ∈ pre, τ a.out = t.values.toEnv a.out) := by
  obtain ⟨pre, fin, known, hsplit, hv, hfin, hsched, _, _⟩ := Program_new_valid fl cls o stmts p ho hwf h
  refine ⟨pre, fin, known, hsplit, hfin, ?_⟩
  intro s t hex
  rw [hsplit] at hex
  have hsettle := C01_settlement fl pre fin s t hv hfin hex
  refine ⟨hsettle, fun x hx => C01_stable fl pre fin s t hv hfin hex x hx, ?_⟩
  intro τ hag hτ
  have hre := sched_readsEarlier pre known known (fun _ hn => hn) hsched (validFrom_pure pre [] hv)
  exact settled_unique fl s.regs s.mem pre known τ t.values.toEnv hre hag hτ hsettle
