import Hcl.Proofs.FaultNamedSoundBanks
open Rust

/-! Soundness of the diagnostics of `assignments_to_actions`: whatever it returns is a list of diagnostics of
    `preprocess_fixed` (first exit), one real dependency cycle (second exit), or diagnostics of the loop over the sorted
    names (third exit); each with what it claims. -/

namespace FaultNamed

/-! ### `preprocess_fixed`, one component -/

section pre
variable (fl : Flags) (widths : AMap Width) (constants : AMap WireValue) (assignments : AMap Ex) (known : List String)

/-- what a diagnostic of `preprocess_fixed` about component `f` claims; `nodes`: the nodes of the dependency graph when
    `f` is met -/
def PreDiag (nodes : List String) (f : FixedFunction) (d : Diag) : Prop :=
  (∃ n ∈ f.inWires.map (·.1), d = ⟨.UnsetBuiltinWire, [n]⟩ ∧ assignments.contains n = false ∧
    (f.mandatory = true ∨ ∃ out w, f.outWire = some (out, w) ∧ out ∈ nodes)) ∨
  (d = ⟨.PartialFixedInput, (f.inWires.map (·.1)).filter (fun n => assignments.contains n) ++ ["/"] ++
      (f.inWires.map (·.1)).filter (fun n => !assignments.contains n)⟩ ∧
    f.mandatory = false ∧ (∃ i ∈ f.inWires.map (·.1), assignments.contains i = true) ∧
    (∃ i ∈ f.inWires.map (·.1), assignments.contains i = false) ∧ ¬ DisabledBy fl widths constants assignments f)

theorem mem_ite_single {c : Prop} [Decidable c] {x d : Diag} (h : d ∈ (if c then [x] else [])) : d = x ∧ c := by
  by_cases hc : c
  · rw [if_pos hc] at h; exact ⟨List.mem_singleton.mp h, hc⟩
  · rw [if_neg hc] at h; cases h

theorem mem_missing_map (l : List String) (d : Diag)
    (h : d ∈ (l.filter (fun n => !assignments.contains n)).map (fun n => (⟨.UnsetBuiltinWire, [n]⟩ : Diag))) :
    ∃ n ∈ l, d = ⟨.UnsetBuiltinWire, [n]⟩ ∧ assignments.contains n = false := by
  obtain ⟨n, hn, e⟩ := List.mem_map.mp h
  rw [List.mem_filter] at hn
  exact ⟨n, hn.1, e.symm, by simpa using hn.2⟩

/-- the errors of the state handed to `addActive` and of its result -/
theorem addActive_errors (st : PreState) (f : FixedFunction) (d : Diag)
    (h : d ∈ (match f.outWire with
      | none => { st with info := { st.info with noOutput := st.info.noOutput ++ [f] } }
      | some (out, _) =>
        let clash := known.contains out || assignments.contains out
        let st := if clash then { st with errors := st.errors ++ panicDiag } else st
        { st with info := { st.info with byOutput := st.info.byOutput.insert out f },
                  graph := (List.map (fun (p : String × Nat) => p.1) f.inWires).foldl (fun g n => g.insert n out) st.graph }).errors) :
    d ∈ st.errors ∨ d ∈ panicDiag := by
  cases ho : f.outWire with
  | none => rw [ho] at h; exact Or.inl h
  | some p =>
    obtain ⟨out, w⟩ := p
    rw [ho] at h
    simp only at h
    by_cases hc : (known.contains out || assignments.contains out) = true
    · simp only [hc, if_true] at h
      exact List.mem_append.mp h
    · simp only [hc, if_false] at h
      exact Or.inl h

theorem preprocessOne_sound (st : PreState) (f : FixedFunction) (d : Diag)
    (hd : d ∈ (preprocessOne fl widths constants assignments known st f).errors) :
    d ∈ st.errors ∨ d ∈ panicDiag ∨ PreDiag fl widths constants assignments st.graph.nodes f d := by
  unfold preprocessOne at hd
  simp only at hd
  -- the state after the check of the input names
  have hst1 : ∀ d, d ∈ (if (f.inWires.map (·.1)).any known.contains = true then
      ({ st with errors := st.errors ++ panicDiag } : PreState) else st).errors → d ∈ st.errors ∨ d ∈ panicDiag := by
    intro d hd
    by_cases hc : (f.inWires.map (·.1)).any known.contains = true
    · simp only [hc, if_true] at hd; exact List.mem_append.mp hd
    · simp only [hc, if_false] at hd; exact Or.inl hd
  have hg1 : (if (f.inWires.map (·.1)).any known.contains = true then
      ({ st with errors := st.errors ++ panicDiag } : PreState) else st).graph = st.graph := by
    split <;> rfl
  generalize (if (f.inWires.map (·.1)).any known.contains = true then
      ({ st with errors := st.errors ++ panicDiag } : PreState) else st) = st1 at hd hst1 hg1
  by_cases hmiss : ((f.inWires.map (·.1)).filter (fun n => !assignments.contains n)).isEmpty = true
  · -- all inputs assigned
    simp only [hmiss, Bool.not_true, Bool.and_false, Bool.false_eq_true, if_false] at hd
    rcases addActive_errors assignments known st1 f d hd with h | h
    · rcases hst1 d h with h | h
      · exact Or.inl h
      · exact Or.inr (Or.inl h)
    · exact Or.inr (Or.inl h)
  · have hmiss' : ((f.inWires.map (·.1)).filter (fun n => !assignments.contains n)).isEmpty = false := by simpa using hmiss
    by_cases hm : f.mandatory = true
    · simp only [hm, hmiss', Bool.not_false, Bool.and_self, if_true] at hd
      rcases addActive_errors assignments known
        ({ graph := st1.graph, info := st1.info, errors := st1.errors ++
            List.map (fun n => (⟨.UnsetBuiltinWire, [n]⟩ : Diag))
              (List.filter (fun n => !assignments.contains n) (List.map (fun x => x.1) f.inWires)) } : PreState)
        f d hd with h | h
      · rcases List.mem_append.mp h with h | h
        · rcases hst1 d h with h | h
          · exact Or.inl h
          · exact Or.inr (Or.inl h)
        · obtain ⟨n, hn, e, ha⟩ := mem_missing_map assignments _ d h
          exact Or.inr (Or.inr (Or.inl ⟨n, hn, e, ha, Or.inl hm⟩))
      · exact Or.inr (Or.inl h)
    · have hm' : f.mandatory = false := by simpa using hm
      simp only [hm', hmiss', Bool.false_and, Bool.not_false, Bool.false_eq_true, if_false, if_true] at hd
      rw [List.append_assoc, List.mem_append, List.mem_append] at hd
      rcases hd with h | h | h
      · rcases hst1 d h with h | h
        · exact Or.inl h
        · exact Or.inr (Or.inl h)
      · -- the output is a node of the graph
        cases ho : f.outWire with
        | none => rw [ho] at h; cases h
        | some p =>
          obtain ⟨out, w⟩ := p
          rw [ho] at h
          simp only at h
          by_cases hn : st1.graph.containsNode out = true
          · rw [if_pos hn] at h
            obtain ⟨n, hn', e, ha⟩ := mem_missing_map assignments _ d h
            refine Or.inr (Or.inr (Or.inl ⟨n, hn', e, ha, Or.inr ⟨out, w, ho, ?_⟩⟩))
            rw [hg1] at hn
            exact List.contains_iff_mem.mp hn
          · rw [if_neg hn] at h; cases h
      · -- some but not all inputs
        by_cases hlen : (((f.inWires.map (·.1)).filter (fun n => !assignments.contains n)).length != f.inWires.length) = true
        · rw [if_pos hlen] at h
          have hsome : ∃ i ∈ f.inWires.map (·.1), assignments.contains i = true := by
            have h1 : ((f.inWires.map (·.1)).filter (fun n => !assignments.contains n)).length ≠ (f.inWires.map (·.1)).length := by
              rw [List.length_map]; simpa using hlen
            obtain ⟨x, hx, hpx⟩ := filter_length_ne _ _ h1
            exact ⟨x, hx, by simpa using hpx⟩
          have hnot : ∃ i ∈ f.inWires.map (·.1), assignments.contains i = false := by
            cases hl : (f.inWires.map (·.1)).filter (fun n => !assignments.contains n) with
            | nil => rw [hl] at hmiss'; cases hmiss'
            | cons a l =>
              have : a ∈ (f.inWires.map (·.1)).filter (fun n => !assignments.contains n) := by rw [hl]; simp
              rw [List.mem_filter] at this
              exact ⟨a, this.1, by simpa using this.2⟩
          obtain ⟨e, hdis⟩ := mem_ite_single h
          refine Or.inr (Or.inr (Or.inr ⟨e, hm', hsome, hnot, ?_⟩))
          rintro ⟨en, expr, v, h1, h2, ⟨ew, h3⟩, h4, h5⟩
          simp only [h1, h2, h3, h4, h5] at hdis
          simp at hdis
        · rw [if_neg hlen] at h; cases h

/-- the nodes one component adds to the graph -/
theorem preprocessOne_nodes_upper (st : PreState) (f : FixedFunction) (n : String)
    (h : n ∈ (preprocessOne fl widths constants assignments known st f).graph.nodes) :
    n ∈ st.graph.nodes ∨ n ∈ f.inWires.map (·.1) ∨ ∃ w, f.outWire = some (n, w) := by
  have key : ∀ (l : List String) (out : String) (g : GBuild), n ∈ (l.foldl (fun g m => g.insert m out) g).nodes →
      n ∈ g.nodes ∨ n ∈ l ∨ n = out := by
    intro l out g hg
    rw [addDeps_nil_known] at hg
    rcases addDeps_nodes_upper' [] out l g n hg with h | h | h
    · exact Or.inl h
    · exact Or.inr (Or.inr h)
    · exact Or.inr (Or.inl h.1)
  unfold preprocessOne at h
  simp only at h
  cases ho : f.outWire with
  | none =>
    simp only [ho] at h
    repeat' split at h
    all_goals exact Or.inl h
  | some p =>
    obtain ⟨out, w⟩ := p
    simp only [ho] at h
    repeat' split at h
    all_goals first
      | exact Or.inl h
      | (rcases key _ _ _ h with h | h | h
         · exact Or.inl h
         · exact Or.inr (Or.inl h)
         · exact Or.inr (Or.inr ⟨w, by rw [h]⟩))

end pre

/-! ### `preprocess_fixed`, the whole table -/

/-- every diagnostic of `preprocess_fixed` is an `assert!` failure or is justified at some component, the graph nodes
    being those of the assignment graph and the names of the components before it -/
theorem preOf_sound (fl : Flags) (assignments : AMap Ex) (widths : AMap Width) (known : List String)
    (fixed : List FixedFunction) (constants : AMap WireValue) (d : Diag)
    (hd : d ∈ (preOf fl assignments widths known fixed constants).errors) :
    d ∈ panicDiag ∨ ∃ pre f post, fixed = pre ++ f :: post ∧
      PreDiag fl widths constants assignments
        ((assignGraph assignments known).nodes ++ pre.flatMap (fun g => g.inWires.map (·.1) ++
          (match g.outWire with | some (n, _) => [n] | none => []))) f d := by
  have mono : ∀ (A B : List String) (f : FixedFunction) (d : Diag), (∀ n ∈ A, n ∈ B) →
      PreDiag fl widths constants assignments A f d → PreDiag fl widths constants assignments B f d := by
    intro A B f d hAB h
    rcases h with ⟨n, hn, e, ha, h⟩ | h
    · refine Or.inl ⟨n, hn, e, ha, ?_⟩
      rcases h with h | ⟨out, w, ho, hm⟩
      · exact Or.inl h
      · exact Or.inr ⟨out, w, ho, hAB _ hm⟩
    · exact Or.inr h
  have key := foldl_prefix_inv (preprocessOne fl widths constants assignments known)
    (fun pre (st : PreState) =>
      (∀ d ∈ st.errors, d ∈ panicDiag ∨ ∃ pr f post, fixed = pr ++ f :: post ∧
        PreDiag fl widths constants assignments
          ((assignGraph assignments known).nodes ++ pr.flatMap (fun g => g.inWires.map (·.1) ++
            (match g.outWire with | some (n, _) => [n] | none => []))) f d) ∧
      (∀ n ∈ st.graph.nodes, n ∈ (assignGraph assignments known).nodes ++ pre.flatMap (fun g => g.inWires.map (·.1) ++
            (match g.outWire with | some (n, _) => [n] | none => [])))) fixed
    (by
      intro pre f post st hl ⟨i1, i2⟩
      refine ⟨?_, ?_⟩
      · intro d hd
        rcases preprocessOne_sound fl widths constants assignments known st f d hd with h | h | h
        · exact i1 d h
        · exact Or.inl h
        · exact Or.inr ⟨pre, f, post, hl, mono _ _ f d i2 h⟩
      · intro n hn
        rcases preprocessOne_nodes_upper fl widths constants assignments known st f n hn with h | h | ⟨w, h⟩
        · have := i2 n h
          rw [List.mem_append] at this ⊢
          rcases this with h | h
          · exact Or.inl h
          · right; rw [List.flatMap_append]; exact List.mem_append_left _ h
        · rw [List.mem_append]; right
          rw [List.flatMap_append]; apply List.mem_append_right
          simp only [List.flatMap_cons, List.flatMap_nil, List.append_nil]
          exact List.mem_append_left _ h
        · rw [List.mem_append]; right
          rw [List.flatMap_append]; apply List.mem_append_right
          simp only [List.flatMap_cons, List.flatMap_nil, List.append_nil, h]
          simp)
    fixed [] { graph := assignGraph assignments known } rfl
    ⟨(by intro d hd; cases hd), (by intro n hn; simpa using hn)⟩
  exact key.1 d hd

/-! ### the loop over the sorted names -/

section loop
variable (fl : Flags) (assignments : AMap Ex) (widths : AMap Width) (declared : List String)
  (constants : AMap WireValue) (byOutput : AMap FixedFunction)

theorem loopStep_sound (st : LoopState) (name : String) :
    (∀ d ∈ (loopStep fl assignments widths declared constants byOutput st name).errors,
      d ∈ st.errors ∨ d ∈ panicDiag ∨ d ∈ nameErrs fl assignments widths declared constants byOutput name) ∧
    (∀ n ∈ (loopStep fl assignments widths declared constants byOutput st name).seenUndeclared,
      n ∈ st.seenUndeclared ∨ (n = name ∧ nameUndecl assignments declared byOutput name = true)) := by
  unfold loopStep nameErrs nameUndecl
  simp only
  cases h1 : assignments.get? name with
  | some expr =>
    simp only
    have hst1 : ∀ d, d ∈ (if (refs expr).all st.covered.contains = true then st
        else { st with errors := st.errors ++ panicDiag }).errors → d ∈ st.errors ∨ d ∈ panicDiag := by
      intro d hd
      by_cases hc : (refs expr).all st.covered.contains = true
      · simp only [hc, if_true] at hd; exact Or.inl hd
      · simp only [hc, if_false] at hd; exact List.mem_append.mp hd
    have hs1 : (if (refs expr).all st.covered.contains = true then st
        else { st with errors := st.errors ++ panicDiag }).seenUndeclared = st.seenUndeclared := by
      split <;> rfl
    generalize (if (refs expr).all st.covered.contains = true then st
        else { st with errors := st.errors ++ panicDiag }) = st1 at hst1 hs1
    cases h2 : widths.get? name with
    | none =>
      simp only
      refine ⟨?_, fun n hn => Or.inl (by rw [← hs1]; exact hn)⟩
      intro d hd
      rcases List.mem_append.mp hd with h | h
      · rcases hst1 d h with h | h
        · exact Or.inl h
        · exact Or.inr (Or.inl h)
      · exact Or.inr (Or.inr h)
    | some w =>
      simp only
      cases h3 : check fl widths.toCtx constants.toEnv expr with
      | error ds =>
        simp only
        refine ⟨?_, fun n hn => Or.inl (by rw [← hs1]; exact hn)⟩
        intro d hd
        rcases List.mem_append.mp hd with h | h
        · rcases hst1 d h with h | h
          · exact Or.inl h
          · exact Or.inr (Or.inl h)
        · exact Or.inr (Or.inr h)
      | ok ew =>
        simp only
        cases h4 : w.combine ew with
        | none =>
          simp only
          refine ⟨?_, fun n hn => Or.inl (by rw [← hs1]; exact hn)⟩
          intro d hd
          rcases List.mem_append.mp hd with h | h
          · rcases hst1 d h with h | h
            · exact Or.inl h
            · exact Or.inr (Or.inl h)
          · exact Or.inr (Or.inr h)
        | some _ =>
          simp only
          refine ⟨?_, fun n hn => Or.inl (by rw [← hs1]; exact hn)⟩
          intro d hd
          rcases hst1 d hd with h | h
          · exact Or.inl h
          · exact Or.inr (Or.inl h)
  | none =>
    simp only
    cases h2 : byOutput.get? name with
    | some f =>
      simp only
      by_cases hc : (f.inWires.map (·.1)).all st.covered.contains = true
      · simp only [hc, if_true]
        exact ⟨fun d hd => Or.inl hd, fun n hn => Or.inl hn⟩
      · simp only [hc, if_false]
        exact ⟨fun d hd => by
          rcases List.mem_append.mp hd with h | h
          · exact Or.inl h
          · exact Or.inr (Or.inl h), fun n hn => Or.inl hn⟩
    | none =>
      simp only
      by_cases hdcl : declared.contains name = true
      · simp only [hdcl, if_true]
        refine ⟨?_, fun n hn => Or.inl hn⟩
        intro d hd
        rcases List.mem_append.mp hd with h | h
        · exact Or.inl h
        · exact Or.inr (Or.inr h)
      · have hd' : declared.contains name = false := by simpa using hdcl
        simp only [hd', Bool.false_eq_true, if_false]
        refine ⟨fun d hd => Or.inl hd, ?_⟩
        intro n hn
        rw [mem_setInsert] at hn
        rcases hn with h | h
        · exact Or.inl h
        · exact Or.inr ⟨h, by simp⟩

theorem actionsLoop_sound : ∀ (names : List String) (st : LoopState),
    (∀ d ∈ (actionsLoop fl assignments widths declared constants byOutput names st).errors,
      d ∈ st.errors ∨ d ∈ panicDiag ∨ ∃ name ∈ names, d ∈ nameErrs fl assignments widths declared constants byOutput name) ∧
    (∀ n ∈ (actionsLoop fl assignments widths declared constants byOutput names st).seenUndeclared,
      n ∈ st.seenUndeclared ∨ (n ∈ names ∧ nameUndecl assignments declared byOutput n = true))
  | [], st => ⟨fun d hd => Or.inl hd, fun n hn => Or.inl hn⟩
  | x :: rest, st => by
    have hstep : actionsLoop fl assignments widths declared constants byOutput (x :: rest) st =
        actionsLoop fl assignments widths declared constants byOutput rest
          (loopStep fl assignments widths declared constants byOutput st x) := by
      simp [actionsLoop]
    rw [hstep]
    obtain ⟨a1, a2⟩ := actionsLoop_sound rest (loopStep fl assignments widths declared constants byOutput st x)
    obtain ⟨s1, s2⟩ := loopStep_sound fl assignments widths declared constants byOutput st x
    refine ⟨?_, ?_⟩
    · intro d hd
      rcases a1 d hd with h | h | ⟨name, hn, h⟩
      · rcases s1 d h with h | h | h
        · exact Or.inl h
        · exact Or.inr (Or.inl h)
        · exact Or.inr (Or.inr ⟨x, List.mem_cons_self, h⟩)
      · exact Or.inr (Or.inl h)
      · exact Or.inr (Or.inr ⟨name, List.mem_cons_of_mem _ hn, h⟩)
    · intro n hn
      rcases a2 n hn with h | ⟨h, hu⟩
      · rcases s2 n h with h | ⟨h, hu⟩
        · exact Or.inl h
        · exact Or.inr ⟨by rw [h]; exact List.mem_cons_self, by rw [h]; exact hu⟩
      · exact Or.inr ⟨List.mem_cons_of_mem _ h, hu⟩

end loop

end FaultNamed
