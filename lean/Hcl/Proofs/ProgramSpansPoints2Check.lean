import Hcl.Proofs.ProgramSpansPoints2Ev
open Rust

/-! Stage 1 of `C14_diag_points_at`: every diagnostic of the spanned width checker `checkSp` on an expression `x` carries
    spans of sub-expressions of `x`, of the shape `Spec.PointsAt` asks for its kind (`checkSp_points`), and so does
    `checkFixEvalSp` over a table of constants (`checkFixEvalSp_points`): its run-time errors are unlocated kinds. -/

namespace Parser
open Spec

/-- the kinds of checker diagnostics that show one sub-expression -/
def singleKind : DKind → Bool
  | .NonBooleanWidth | .NoBitWidth | .WireTooWide | .InvalidBitIndex | .MisorderedBitIndexes | .NoMuxDefaultOption
  | .MultipleMuxDefaultOption | .UnreachableOptions => true
  | _ => false

/-- a checker diagnostic located inside a set `S` of expressions (the sub-expressions of the checked expression):
    one sub-expression; the two operands of a width mismatch; the values of all options of one case expression; an
    occurrence of the undeclared name -/
inductive CkPt (S : PEx → Prop) : DiagSp → Prop
  | one (k : DKind) (hk : singleKind k = true) (y : PEx) (hy : S y) : CkPt S ⟨k, [], [y.span]⟩
  | two (y1 y2 : PEx) (h1 : S y1) (h2 : S y2) : CkPt S ⟨.MismatchedExprWidths, [], [y1.span, y2.span]⟩
  | mux (s e : Nat) (opts : POpts) (h : S (.mux s e opts)) : CkPt S ⟨.MismatchedMuxWidths, [], optionValueSpans opts⟩
  | wire (s e : Nat) (n : String) (h : S (.wire s e n)) : CkPt S ⟨.UndeclaredWireRead, [n], [(s, e)]⟩

/-- every diagnostic of a failing verdict is located in `S` -/
def AllPt {α : Type} (S : PEx → Prop) (r : CS α) : Prop := ∀ ds, r = .error ds → ∀ d ∈ ds, CkPt S d

theorem AllPt_pure {α : Type} (S : PEx → Prop) (a : α) : AllPt S (pure a : CS α) := fun _ h => by cases h

theorem AllPt_throw {α : Type} (S : PEx → Prop) (ds : List DiagSp) (h : ∀ d ∈ ds, CkPt S d) : AllPt S (throw ds : CS α) := by
  intro ds' h'
  cases h'
  exact h

theorem AllPt_throw1 {α : Type} (S : PEx → Prop) (d : DiagSp) (h : CkPt S d) : AllPt S (throw [d] : CS α) :=
  AllPt_throw S [d] (fun d' hd' => by rw [List.mem_singleton.mp hd']; exact h)

theorem AllPt_bind {α β : Type} {S : PEx → Prop} {x : CS α} {f : α → CS β} (hx : AllPt S x)
    (hf : ∀ a, x = .ok a → AllPt S (f a)) : AllPt S (x >>= f) := by
  intro ds h
  cases hxx : x with
  | error e =>
    rw [hxx] at h
    simp only [bind, Except.bind] at h
    cases h
    exact hx _ hxx
  | ok a =>
    rw [hxx] at h
    exact hf a hxx ds h

theorem AllPt_ite {α : Type} {S : PEx → Prop} {c : Prop} [Decidable c] {a b : CS α} (ha : c → AllPt S a) (hb : ¬ c → AllPt S b) :
    AllPt S (if c then a else b) := by
  by_cases hc : c
  · rw [if_pos hc]; exact ha hc
  · rw [if_neg hc]; exact hb hc

theorem subs_self : ∀ x : PEx, x ∈ subs x
  | .const _ _ _ => by simp [subs]
  | .bin _ _ _ _ _ => by simp [subs]
  | .un _ _ _ _ => by simp [subs]
  | .mux _ _ _ => by simp [subs]
  | .wire _ _ _ => by simp [subs]
  | .slice _ _ _ _ _ => by simp [subs]
  | .concat _ _ _ _ => by simp [subs]
  | .inSet _ _ _ _ => by simp [subs]

theorem valueSpans_eq : ∀ o : POpts, o.valueSpans = optionValueSpans o
  | .nil => rfl
  | .cons c v r => by simp [POpts.valueSpans, optionValueSpans, valueSpans_eq r]

section
variable (fl : Flags) (Γ : Ctx) (κ : Env)

/-- the two operands of a binary operation whose widths must agree -/
theorem combine_pt {S : PEx → Prop} (l r : PEx) (hl : S l) (hr : S r) (a b : Width) (f : Width → Width) :
    AllPt S (match a.combine b with
      | some w => pure (f w)
      | none => throw [⟨.MismatchedExprWidths, [], [l.span, r.span]⟩] : CS Width) := by
  cases a.combine b with
  | some w => exact AllPt_pure S _
  | none => exact AllPt_throw1 S _ (CkPt.two l r hl hr)

mutual
theorem checkSp_pt : ∀ (x : PEx) (S : PEx → Prop), (∀ y ∈ subs x, S y) → AllPt S (checkSp fl Γ κ x)
  | .const _ _ v, S, _ => by unfold checkSp; exact AllPt_pure S _
  | .wire s e n, S, hS => by
      unfold checkSp
      cases Γ n with
      | some w => exact AllPt_pure S _
      | none => exact AllPt_throw1 S _ (CkPt.wire s e n (hS _ (subs_self _)))
  | .bin s e op l r, S, hS => by
      have hSl : ∀ y ∈ subs l, S y := fun y hy => hS y (by simp [subs, hy])
      have hSr : ∀ y ∈ subs r, S y := fun y hy => hS y (by simp [subs, hy])
      have ihl := checkSp_pt l S hSl
      have ihr := checkSp_pt r S hSr
      have hl := hSl l (subs_self l)
      have hr := hSr r (subs_self r)
      unfold checkSp
      cases hk : op.kind <;> simp only []
      · -- boolCombine
        refine AllPt_ite (fun _ => ?_) (fun _ => ?_)
        · refine AllPt_bind ihl fun a _ => AllPt_ite (fun _ => ?_) (fun _ => ?_)
          · exact AllPt_bind (AllPt_throw1 S _ (CkPt.one _ rfl l hl)) fun _ h => by cases h
          · refine AllPt_bind ihr fun b _ => AllPt_ite (fun _ => ?_) (fun _ => AllPt_pure S _)
            exact AllPt_bind (AllPt_throw1 S _ (CkPt.one _ rfl r hr)) fun _ h => by cases h
        · exact AllPt_bind ihl fun _ _ => AllPt_bind ihr fun _ _ => AllPt_pure S _
      · -- boolFromEq
        exact AllPt_bind ihl fun a _ => AllPt_bind ihr fun b _ => combine_pt l r hl hr a b (fun _ => .bits 1)
      · -- equalWidth
        exact AllPt_bind ihl fun a _ => AllPt_bind ihr fun b _ => combine_pt l r hl hr a b id
      · -- equalWidthWeak
        refine AllPt_ite (fun _ => ?_) (fun _ => ?_)
        · exact AllPt_bind ihl fun a _ => AllPt_bind ihr fun b _ => combine_pt l r hl hr a b id
        · exact AllPt_bind ihl fun _ _ => AllPt_bind ihr fun _ _ => AllPt_pure S _
  | .un s e op x, S, hS => by
      have ih := checkSp_pt x S (fun y hy => hS y (by simp [subs, hy]))
      cases op <;> unfold checkSp
      · exact ih
      · exact ih
      · exact ih
      · exact AllPt_bind ih fun _ _ => AllPt_pure S _
  | .slice s e x lo hi, S, hS => by
      have ih := checkSp_pt x S (fun y hy => hS y (by simp [subs, hy]))
      have hme := hS _ (subs_self (.slice s e x lo hi))
      unfold checkSp
      refine AllPt_ite (fun _ => AllPt_throw1 S _ (CkPt.one _ rfl _ hme)) (fun _ => ?_)
      refine AllPt_bind ih fun a _ => ?_
      cases a with
      | bits n => exact AllPt_ite (fun _ => AllPt_throw1 S _ (CkPt.one _ rfl _ hme)) (fun _ => AllPt_pure S _)
      | unlimited => exact AllPt_pure S _
  | .concat s e l r, S, hS => by
      have hSl : ∀ y ∈ subs l, S y := fun y hy => hS y (by simp [subs, hy])
      have hSr : ∀ y ∈ subs r, S y := fun y hy => hS y (by simp [subs, hy])
      have ihl := checkSp_pt l S hSl
      have ihr := checkSp_pt r S hSr
      have hl := hSl l (subs_self l)
      have hr := hSr r (subs_self r)
      have hme := hS _ (subs_self (.concat s e l r))
      unfold checkSp
      refine AllPt_bind ihl fun a _ => ?_
      cases a with
      | unlimited => exact AllPt_throw1 S _ (CkPt.one _ rfl l hl)
      | bits lw =>
        refine AllPt_bind ihr fun b _ => ?_
        cases b with
        | unlimited => exact AllPt_throw1 S _ (CkPt.one _ rfl r hr)
        | bits rw => exact AllPt_ite (fun _ => AllPt_pure S _) (fun _ => AllPt_throw1 S _ (CkPt.one _ rfl _ hme))
  | .mux s e opts, S, hS => by
      have ih := checkOptsSp_pt opts S (fun y hy => hS y (by simp [subs, hy])) {}
      have hme := hS _ (subs_self (.mux s e opts))
      unfold checkSp
      refine AllPt_bind ih fun st _ => ?_
      refine AllPt_ite (fun _ => ?_) (fun _ => ?_)
      · exact AllPt_bind (AllPt_throw1 S _ (CkPt.one _ rfl _ hme)) fun _ h => by cases h
      refine AllPt_ite (fun _ => ?_) (fun _ => ?_)
      · exact AllPt_bind (AllPt_throw1 S _ (CkPt.one _ rfl _ hme)) fun _ h => by cases h
      refine AllPt_ite (fun _ => ?_) (fun _ => ?_)
      · exact AllPt_bind (AllPt_throw1 S _ (CkPt.one _ rfl _ hme)) fun _ h => by cases h
      cases st.width with
      | some w => exact AllPt_pure S _
      | none =>
        refine AllPt_throw1 S _ ?_
        rw [valueSpans_eq]
        exact CkPt.mux s e opts hme
  | .inSet s e x items, S, hS => by
      have hSx : ∀ y ∈ subs x, S y := fun y hy => hS y (by simp [subs, hy])
      have ih := checkSp_pt x S hSx
      have hx := hSx x (subs_self x)
      unfold checkSp
      refine AllPt_bind ih fun a _ => ?_
      have ih2 := checkItemsSp_pt a x S hx items (fun y hy => hS y (by simp [subs, hy]))
      refine AllPt_bind ih2.1 fun errs he => ?_
      exact AllPt_ite (fun _ => AllPt_pure S _) (fun _ => AllPt_throw S _ (ih2.2 errs he))
theorem checkOptsSp_pt : ∀ (opts : POpts) (S : PEx → Prop), (∀ y ∈ subsOpts opts, S y) → ∀ st, AllPt S (checkOptsSp fl Γ κ opts st)
  | .nil, S, _, st => by unfold checkOptsSp; exact AllPt_pure S _
  | .cons c v rest, S, hS, st => by
      have ihc := checkSp_pt c S (fun y hy => hS y (by simp [subsOpts, hy]))
      have ihv := checkSp_pt v S (fun y hy => hS y (by simp [subsOpts, hy]))
      have ihr := checkOptsSp_pt rest S (fun y hy => hS y (by simp [subsOpts, hy]))
      unfold checkOptsSp
      exact AllPt_bind ihc fun _ _ => AllPt_bind ihv fun _ _ => ihr _
theorem checkItemsSp_pt (a : Width) (x0 : PEx) (S : PEx → Prop) (hx0 : S x0) : ∀ (items : PExs),
    (∀ y ∈ subsExs items, S y) →
    AllPt S (checkItemsSp fl Γ κ a x0.span items) ∧
    ∀ errs, checkItemsSp fl Γ κ a x0.span items = .ok errs → ∀ d ∈ errs, CkPt S d
  | .nil, _ => by
      unfold checkItemsSp
      exact ⟨AllPt_pure S _, fun errs h d hd => by cases h; cases hd⟩
  | .cons x rest, hS => by
      have hSx : ∀ y ∈ subs x, S y := fun y hy => hS y (by simp [subsExs, hy])
      have ihx := checkSp_pt x S hSx
      have hx := hSx x (subs_self x)
      have ihr := checkItemsSp_pt a x0 S hx0 rest (fun y hy => hS y (by simp [subsExs, hy]))
      unfold checkItemsSp
      constructor
      · refine AllPt_bind ihx fun b _ => AllPt_bind ihr.1 fun more _ => ?_
        cases a.combine b with
        | some w => exact AllPt_pure S _
        | none => exact AllPt_pure S _
      · intro errs h d hd
        obtain ⟨b, hb, h⟩ := bind_ok h
        obtain ⟨more, hm, h⟩ := bind_ok h
        cases hc : a.combine b with
        | some w =>
          rw [hc] at h
          cases h
          exact ihr.2 _ hm d hd
        | none =>
          rw [hc] at h
          cases h
          rcases List.mem_cons.mp hd with rfl | hd
          · exact CkPt.two x0 x hx0 hx
          · exact ihr.2 _ hm d hd
end
end

/-- **stage 1, the checker**: every diagnostic of `checkSp` on `x` is located in the sub-expressions of `x` -/
theorem checkSp_points (fl : Flags) (Γ : Ctx) (κ : Env) (x : PEx) (ds : List DiagSp) (h : checkSp fl Γ κ x = .error ds) :
    ∀ d ∈ ds, CkPt (fun y => y ∈ subs x) d :=
  checkSp_pt fl Γ κ x _ (fun _ hy => hy) ds h

/-- a checker diagnostic located in an expression of the program is located as the specification asks -/
theorem CkPt.wl (ss : List SStmt) (x : PEx) (hx : x ∈ exprsOf ss) (d : DiagSp) (h : CkPt (fun y => y ∈ subs x) d) : WL ss d := by
  cases h with
  | one k hk y hy =>
    have hone : InOneExpr ss [y.span] := ⟨x, hx, fun sp hsp => ⟨y, hy, List.mem_singleton.mp hsp⟩⟩
    cases k <;> first | exact hone | cases hk
  | two y1 y2 h1 h2 =>
    refine ⟨x, hx, fun sp hsp => ?_⟩
    rcases List.mem_cons.mp hsp with rfl | hsp
    · exact ⟨y1, h1, rfl⟩
    · exact ⟨y2, h2, List.mem_singleton.mp hsp⟩
  | mux s e opts h => exact ⟨x, hx, s, e, opts, h, rfl⟩
  | wire s e n h => exact ⟨x, hx, s, e, h, rfl⟩

/-- an unlocated evaluation error is a diagnostic without a location, as the specification asks -/
theorem quiet_wl (ss : List SStmt) (err : Err) (h : Quiet err) : WL ss (DiagSp.ofDiag err.toDiag) := by
  cases err with
  | fail f => trivial
  | runtimeMismatchedWidths => trivial
  | divideByZero => trivial
  | noBitWidth => cases h
  | undeclaredWireRead n => cases h

theorem panicSp_wl (ss : List SStmt) : ∀ d ∈ panicSp, WL ss d := by
  intro d hd
  simp only [panicSp, panicDiag, List.map_cons, List.map_nil, List.mem_singleton] at hd
  subst hd
  trivial

/-- **stage 1, check and evaluate**: over a table of constants, every diagnostic of `checkFixEvalSp` on an expression
    of the program is located as the specification asks -/
theorem checkFixEvalSp_points (ss : List SStmt) (fl : Flags) (res : AMap WireValue) (x : PEx) (hx : x ∈ exprsOf ss)
    (ds : List DiagSp)
    (h : checkFixEvalSp fl (AMap.toCtx (res.map fun p => (p.1, p.2.width))) (AMap.toEnv res) x = .error ds) :
    ∀ d ∈ ds, WL ss d := by
  intro d hd
  rcases checkFixEvalSp_cases fl res x ds h with hc | ⟨err, hq, rfl⟩
  · exact CkPt.wl ss x hx d (checkSp_points _ _ _ x ds hc d hd)
  · rw [List.mem_singleton.mp hd]
    exact quiet_wl ss err hq

end Parser
