import Hcl.Proofs.ReorderTables
open Rust

/-! Step 3 (register banks), when it records no diagnostic: the bank records are a function of the bank declarations
    and of the table of the constants alone, one record per declaration and in the order of the declarations. -/

namespace Reorder

/-- what one register adds to its bank's record, given the width context and the values of the constants -/
def regPure (fl : Flags) (Γ : Ctx) (κ : Env) (inP outP : Char) (acc : BankAcc) (r : RegDecl) : BankAcc :=
  match checkFixEval fl Γ κ r.default with
  | .ok value =>
    match asWidth value r.width with
    | .ok dv =>
      { signals := acc.signals ++ [(String.ofList [inP, '_'] ++ r.name, String.ofList [outP, '_'] ++ r.name, r.width)],
        defaults := acc.defaults.insert (String.ofList [outP, '_'] ++ r.name) dv }
    | .error _ => acc
  | .error _ => acc

/-- the record of one bank declaration -/
def bankRec (fl : Flags) (Γ : Ctx) (κ : Env) (b : BankDecl) : RegisterBank :=
  match b.name.toList with
  | [inP, outP] =>
    let acc := b.regs.foldl (regPure fl Γ κ inP outP) {}
    { label := b.name, signals := acc.signals, defaults := acc.defaults,
      stall := "stall_" ++ String.ofList [outP], bubble := "bubble_" ++ String.ofList [outP] }
  | _ => default

section
variable (fl : Flags) (cls : CharClass) (s1 : Step1) (constants : AMap WireValue)

theorem step3Register_pure (bank : String) (inP outP : Char) (s : Step3) (acc : BankAcc) (r : RegDecl)
    (hclean : (step3Register fl s1 constants bank inP outP (s, acc) r).1.errors = []) :
    (step3Register fl s1 constants bank inP outP (s, acc) r).2 =
      regPure fl (wOf constants).toCtx constants.toEnv inP outP acc r := by
  unfold step3Register at hclean ⊢
  simp only at hclean ⊢
  split
  · rename_i hpre
    rw [if_pos hpre] at hclean
    simp only [List.append_eq_nil_iff] at hclean
    simp only [Bool.not_eq_true', List.isEmpty_eq_false_iff] at hpre
    exact absurd hclean.2 hpre
  · rename_i hpre
    rw [if_neg hpre] at hclean
    unfold regEval at hclean ⊢
    unfold regPure wOf
    simp only at hclean ⊢
    cases hv : checkFixEval fl (AMap.toCtx (constants.map fun p => (p.1, p.2.width))) constants.toEnv r.default with
    | error ds => rfl
    | ok v =>
      simp only
      cases hd : asWidth v r.width with
      | error e => rfl
      | ok dv => rfl

theorem regs_fold_pure (bank : String) (inP outP : Char) : ∀ (regs : List RegDecl) (s : Step3) (acc : BankAcc),
    (regs.foldl (step3Register fl s1 constants bank inP outP) (s, acc)).1.errors = [] →
    (regs.foldl (step3Register fl s1 constants bank inP outP) (s, acc)).2 =
      regs.foldl (regPure fl (wOf constants).toCtx constants.toEnv inP outP) acc
  | [], _, _, _ => rfl
  | r :: rest, s, acc, hclean => by
    simp only [List.foldl_cons] at hclean ⊢
    have hstep := regs_fold_errors_back fl s1 constants bank inP outP rest _ hclean
    have e : step3Register fl s1 constants bank inP outP (s, acc) r =
        ((step3Register fl s1 constants bank inP outP (s, acc) r).1, (step3Register fl s1 constants bank inP outP (s, acc) r).2) := rfl
    rw [e] at hclean ⊢
    rw [regs_fold_pure bank inP outP rest _ _ hclean, step3Register_pure fl s1 constants bank inP outP s acc r hstep]

theorem step3Bank_pure (s : Step3) (b : BankDecl) (hclean : (step3Bank fl cls s1 constants s b).errors = []) :
    (step3Bank fl cls s1 constants s b).banks = s.banks ++ [bankRec fl (wOf constants).toCtx constants.toEnv b] := by
  unfold step3Bank at hclean ⊢
  unfold bankRec
  split
  · rename_i inP outP hname
    simp only [hname] at hclean
    split
    · rename_i hcase
      rw [if_pos hcase] at hclean
      simp at hclean
    · rename_i hcase
      rw [if_neg hcase] at hclean
      simp only at hclean ⊢
      rw [regs_fold_banks fl s1 constants b.name inP outP b.regs _]
      rw [regs_fold_pure fl s1 constants b.name inP outP b.regs _ _ hclean]
      simp only [hname]
  · simp at hclean

theorem banks_fold_pure : ∀ (banks : List BankDecl) (s : Step3),
    (banks.foldl (step3Bank fl cls s1 constants) s).errors = [] →
    (banks.foldl (step3Bank fl cls s1 constants) s).banks =
      s.banks ++ banks.map (bankRec fl (wOf constants).toCtx constants.toEnv)
  | [], _, _ => by simp
  | b :: rest, s, hclean => by
    simp only [List.foldl_cons] at hclean ⊢
    have hstep := banks_fold_errors_back fl cls s1 constants rest _ hclean
    rw [banks_fold_pure rest _ hclean, step3Bank_pure fl cls s1 constants s b hstep]
    simp

/-- **the bank records of a clean step 3 are the records of the declarations, in order** -/
theorem step3Of_banks (hclean : (step3Of fl cls s1 constants).errors = []) :
    (step3Of fl cls s1 constants).banks = s1.banksRaw.map (bankRec fl (wOf constants).toCtx constants.toEnv) := by
  unfold step3Of at hclean ⊢
  rw [banks_fold_pure fl cls s1 constants s1.banksRaw _ hclean]
  rfl
end

/-! ### two tables of constants with the same content -/

/-- the same finite map -/
def SameMap (c c' : AMap WireValue) : Prop := ∀ n, c.get? n = c'.get? n

theorem SameMap.toEnv {c c' : AMap WireValue} (h : SameMap c c') : c.toEnv = c'.toEnv := by
  funext n; exact h n

theorem SameMap.wCtx {c c' : AMap WireValue} (h : SameMap c c') : (wOf c).toCtx = (wOf c').toCtx := by
  funext n
  rw [wOf_toCtx, wOf_toCtx, h.toEnv]

theorem SameMap.contains {c c' : AMap WireValue} (h : SameMap c c') (n : String) : c.contains n = c'.contains n :=
  contains_of_get?_eq c c' n (h n)

theorem SameMap.symm {c c' : AMap WireValue} (h : SameMap c c') : SameMap c' c := fun n => (h n).symm

/-- **Reordering the `register` statements permutes the bank records**, and the records depend on the constants only as
    a finite map -/
theorem step3Of_banks_perm (fl : Flags) (cls : CharClass) (s1 s1' : Step1) (c c' : AMap WireValue)
    (hb : s1.banksRaw.Perm s1'.banksRaw) (hc : SameMap c c')
    (hclean : (step3Of fl cls s1 c).errors = []) (hclean' : (step3Of fl cls s1' c').errors = []) :
    (step3Of fl cls s1 c).banks.Perm (step3Of fl cls s1' c').banks := by
  rw [step3Of_banks fl cls s1 c hclean, step3Of_banks fl cls s1' c' hclean', hc.toEnv, hc.wCtx]
  exact hb.map _

end Reorder

#print axioms Reorder.step3Of_banks
#print axioms Reorder.step3Of_banks_perm
