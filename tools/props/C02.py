"""C02 — expression operators compute the HCL-defined function at every width."""
from props import C19
from props import C11
from props.common_prog import judge_prog

THEOREM_MODULES = ["Hcl.Theorems.C02", "Hcl.Tie.Ops", "Hcl.Tie.PinsValue", "Hcl.Tie.Grammar", "Hcl.Tie.PinsGrammar"]
THEOREMS = {"Hcl.Tie.PinsGrammar": ["Tie.PinsGrammar.pinGrammarFile"],
            "Hcl.Tie.Grammar": ["Tie.Grammar.grammarTiers", "Tie.Grammar.grammarOps", "Tie.Grammar.grammarInOperand", "Tie.Grammar.grammarBounds"],
            "Hcl.Tie.PinsValue": ["Tie.PinsValue.pinAsWidth", "Tie.PinsValue.pinValueOp"],
            "Hcl.Tie.Ops": ["Tie.Ops.binopKind", "Tie.Ops.applyRawArms", "Tie.Ops.binopApplyText", "Tie.Ops.unopApplyText", "Tie.Ops.maskText", "Tie.Ops.combineText", "Tie.Ops.maxText"], "Hcl.Theorems.C02": ["C02_accepted", "Program_new_all", "C02_eval_eq_denote", "C02_assign", "ev_correct", "applyBin_spec", "applyUn_spec"]}

RULE = ("S-EXPR: type-directed random expressions (every operator, depth 1-5, operand/result widths from "
        "{unsized,0,1,2,3,4,7,8,15,16,31,32,33,63,64,65,80,127,128}, values biased to 0, 1, 2^w-1, 2^(w-1), 2^64+-1, 2^127, "
        "shift amounts around 128) assigned to a wire with operand wires driven by constants, parsed by the real parser, "
        "checked and stepped once by the real code; the AST the real parser produced is handed to the Lean model "
        "(correspondence: impl result == model result) and to the specification Spec.dv/Spec.sw (oracle: impl == spec). "
        "S-PROG dag profile adds multi-cycle programs. distinct = distinct program texts; non-trivial = every case "
        "(each contains at least one operator application or slice).")


def judge(req, impl, model, spec):
    return judge_prog(req, impl, model, spec)


def streams(tier, seed):
    q = tier == "quick"
    return [
        {"name": "expr", "stream": "expr", "count": 4000 if q else 200000, "judge": judge},
        {"name": "prog-dag", "stream": "prog", "count": 300 if q else 10000, "extra": ("dag",), "judge": judge},
            # what the user sees goes through the command line and the two files: the real binary on accepted, rejected, big, not-UTF-8, bare-CR files, good and malformed images, all options and TIMEOUT forms (as in C19)
            {"name": "cli", "stream": "cli", "count": 200 if q else 5000, "pygen": C19.pygen, "judge": C19.judge},
            # which function an operator symbol denotes in a written expression includes how the expression groups: the real
            # parser against the parser model on operator pairs and triples, unary operators, slices, `in` (as in C11)
            {"name": "parse", "stream": "parse", "count": 1500 if q else 50000, "judge": C11.judge}]
