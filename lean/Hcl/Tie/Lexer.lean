import Hcl.Generated

/-! Tie between the tables extracted from /repo on this run (`Hcl/Generated.lean`) and the values the
    hand-written model was validated against.  A change of the source shows up as a failing `rfl` here. -/

namespace Tie.Lexer

theorem keywords : Generated.keywords = ([("wire", "Wire"), ("const", "Const"), ("register", "Register"), ("in", "In")] : List (String × String)) := by rfl

theorem simpleTokens : Generated.simpleTokens = ([(':', "Colon"), ('~', "Complement"), (',', "Comma"), (';', "Semicolon"), ('+', "Plus"), ('-', "Minus"), ('^', "Xor"), ('*', "Times"), ('(', "OpenParen"), (')', "CloseParen"), ('[', "OpenBracket"), (']', "CloseBracket"), ('{', "OpenBrace"), ('}', "CloseBrace")] : List (Char × String)) := by rfl

theorem chooseTokens : Generated.chooseTokens = ([('&', "And", [('&', "AndAnd")]), ('|', "Or", [('|', "OrOr")]), ('=', "Assign", [('=', "Equal")]), ('>', "Greater", [('>', "RightShift"), ('=', "GreaterEqual")]), ('<', "Less", [('<', "LeftShift"), ('=', "LessEqual")]), ('!', "Not", [('=', "NotEqual")])] : List (Char × String × List (Char × String))) := by rfl

theorem handleConstantText : Generated.handleConstantText = ("if let Some((_, c2)) = self.internal_next() { match c2 { 'x' => { self.expect_or_error(is_hexadecimal_char)?; let (start_noprefix, hex, end) = self.get_while(i + 2, is_hexadecimal_char); let start = start_noprefix - 2; match u128::from_str_radix(&hex, 16) { Ok(value) => { return Ok((start, Tok::Constant(WireValue::new(value)), end)); } Err(_) => { return Err(Error::InvalidConstant((start, end))); } } }, 'b' => { self.expect_or_error(is_binary_char)?; let (start_noprefix, bin, end) = self.get_while(i + 2, is_binary_char); let start = start_noprefix - 2; self.expect_peek_not(is_decimal_char)?; if bin.len() > 128 { return Err(Error::InvalidConstant((start, end))); } match u128::from_str_radix(&bin, 2) { Ok(value) => { let width = WireWidth::Bits(bin.len() as u8); return Ok((start, Tok::Constant(WireValue::new(value).as_width(width)), end)); } Err(_) => { return Err(Error::InvalidConstant((start, end))); } } } '0' ..= '9' => { self.unget(); let (start, num, end) = self.get_while(i, is_decimal_char); match u128::from_str_radix(&num, 10) { Ok(value) => { return Ok((start, Tok::Constant(WireValue::new(value)), end)); } Err(_) => { return Err(Error::InvalidConstant((start, end))); } } }, _ => { self.unget(); let start = i; let end = i + 1; let num = self.extract(start, end); match u128::from_str_radix(&num, 10) { Ok(value) => { return Ok((start, Tok::Constant(WireValue::new(value)), end)); } Err(_) => { return Err(Error::InvalidConstant((start, end))); } } }, } } else { let start = i; let end = i + 1; let num = self.extract(start, end); match u128::from_str_radix(&num, 10) { Ok(value) => { return Ok((start, Tok::Constant(WireValue::new(value)), end)); } Err(_) => { return Err(Error::InvalidConstant((start, end))); } } }" : String) := by rfl

end Tie.Lexer
