import Hcl.Proofs.CompleteBanks
open Rust

/-! Step 3 of `Program::new`, when it records no diagnostic: exactly which register banks it builds.
    One bank per declaration, in order; the bank's label is the declared name, its signals are the
    (input name, output name, width) triples of the declared registers in order, and its two control signals are
    `stall_`/`bubble_` followed by the last character of the name. -/

namespace SF
/-- the signals (input name, output name, width) a bank declaration gives rise to -/
def sigsOfDecl (b : BankDecl) : List (String × String × Width) :=
  match b.name.toList with
  | [i, o] => b.regs.map fun r => (regInName i r, regOutName o r, r.width)
  | _ => []
def stallOf (b : BankDecl) : String := "stall_" ++ String.ofList [b.name.toList.getLast!]
def bubbleOf (b : BankDecl) : String := "bubble_" ++ String.ofList [b.name.toList.getLast!]

/-- what the statements below observe of a bank: label, signals, the two control signals -/
def view (b : RegisterBank) : String × List (String × String × Width) × String × String :=
  (b.label, b.signals, b.stall, b.bubble)

/-- what a declaration promises of its bank -/
def viewDecl (bd : BankDecl) : String × List (String × String × Width) × String × String :=
  (bd.name, sigsOfDecl bd, stallOf bd, bubbleOf bd)
end SF

section
variable (fl : Flags) (cls : CharClass) (s1 : Step1) (constants : AMap WireValue)

/-! ### one register -/

/-- a register for which nothing is recorded appends exactly its signal triple -/
theorem SF.step3Register_signals (bank : String) (inP outP : Char) (s : Step3) (acc : BankAcc) (r : RegDecl)
    (hr : r.width.ok)
    (hclean : (step3Register fl s1 constants bank inP outP (s, acc) r).1.errors = []) :
    (step3Register fl s1 constants bank inP outP (s, acc) r).2.signals =
      acc.signals ++ [(regInName inP r, regOutName outP r, r.width)] := by
  unfold step3Register at hclean ⊢
  simp only at hclean ⊢
  unfold regOutName regInName
  generalize String.ofList [inP, '_'] ++ r.name = inName at hclean ⊢
  generalize String.ofList [outP, '_'] ++ r.name = outName at hclean ⊢
  generalize hpre : regPre s1 constants bank inName outName acc s.seenRegisters r = pre at hclean ⊢
  by_cases hpe : pre.1.isEmpty = true
  · simp only [hpe, Bool.not_true, Bool.false_eq_true, if_false] at hclean ⊢
    obtain ⟨_, dv, _, _, g3, _, _⟩ := regEval_inv fl constants bank inName outName _ acc r hr hclean
    rw [g3]
  · exfalso
    simp only [hpe] at hclean
    simp only [Bool.not_false, if_true, List.append_eq_nil_iff] at hclean
    exact hpe (by simp [hclean.2])

/-! ### the registers of one bank -/

/-- the loop over the registers of a bank, when nothing is recorded, appends the registers' signal triples in order -/
theorem SF.regs_fold_signals (bank : String) (inP outP : Char) : ∀ (regs : List RegDecl) (s : Step3) (acc : BankAcc),
    (∀ r ∈ regs, r.width.ok) →
    (regs.foldl (step3Register fl s1 constants bank inP outP) (s, acc)).1.errors = [] →
    (regs.foldl (step3Register fl s1 constants bank inP outP) (s, acc)).2.signals =
      acc.signals ++ regs.map (fun r => (regInName inP r, regOutName outP r, r.width))
  | [], s, acc, _, _ => by simp
  | r :: rest, s, acc, hw, hclean => by
    simp only [List.foldl_cons] at hclean ⊢
    have hc : (step3Register fl s1 constants bank inP outP (s, acc) r).1.errors = [] :=
      regs_fold_errors_back fl s1 constants bank inP outP rest _ hclean
    have h1 := SF.step3Register_signals fl s1 constants bank inP outP s acc r (hw r List.mem_cons_self) hc
    generalize step3Register fl s1 constants bank inP outP (s, acc) r = st' at hclean h1 ⊢
    obtain ⟨s', acc'⟩ := st'
    simp only at h1
    rw [SF.regs_fold_signals bank inP outP rest s' acc' (fun x hx => hw x (List.mem_cons_of_mem _ hx)) hclean, h1]
    simp

/-! ### one bank -/

theorem SF.sigsOfDecl_of_name (b : BankDecl) (i o : Char) (h : b.name.toList = [i, o]) :
    SF.sigsOfDecl b = b.regs.map fun r => (regInName i r, regOutName o r, r.width) := by
  unfold SF.sigsOfDecl
  simp only [h]

theorem SF.stallOf_of_name (b : BankDecl) (i o : Char) (h : b.name.toList = [i, o]) :
    SF.stallOf b = "stall_" ++ String.ofList [o] := by
  unfold SF.stallOf
  rw [h]
  rfl

theorem SF.bubbleOf_of_name (b : BankDecl) (i o : Char) (h : b.name.toList = [i, o]) :
    SF.bubbleOf b = "bubble_" ++ String.ofList [o] := by
  unfold SF.bubbleOf
  rw [h]
  rfl

/-- a bank for which nothing is recorded appends exactly one register bank: the one its declaration promises -/
theorem SF.step3Bank_banks (s : Step3) (b : BankDecl) (hw : ∀ r ∈ b.regs, r.width.ok)
    (hclean : (step3Bank fl cls s1 constants s b).errors = []) :
    (step3Bank fl cls s1 constants s b).banks.map SF.view = s.banks.map SF.view ++ [SF.viewDecl b] := by
  by_cases hshape : ∃ i o, b.name.toList = [i, o]
  · obtain ⟨inP, outP, hname⟩ := hshape
    by_cases hcase : cls.isLower inP = true ∧ cls.isUpper outP = true
    · obtain ⟨hl, hu⟩ := hcase
      unfold SF.viewDecl
      rw [SF.sigsOfDecl_of_name b inP outP hname, SF.stallOf_of_name b inP outP hname,
        SF.bubbleOf_of_name b inP outP hname]
      unfold step3Bank at hclean ⊢
      simp only [hname, hl, hu, Bool.not_true, Bool.or_self, Bool.false_eq_true, if_false] at hclean ⊢
      have hb := fun s0 : Step3 => regs_fold_banks fl s1 constants b.name inP outP b.regs (s0, {})
      have hsig := SF.regs_fold_signals fl s1 constants b.name inP outP b.regs _ {} hw hclean
      rw [hb, hsig]
      simp [SF.view]
    · exact absurd hclean (step3Bank_bad_case fl cls s1 constants s b inP outP hname hcase)
  · exact absurd hclean (step3Bank_bad_shape fl cls s1 constants s b (fun i o h => hshape ⟨i, o, h⟩))

/-! ### all banks -/

theorem SF.banks_fold_banks : ∀ (banks : List BankDecl) (s : Step3),
    (∀ b ∈ banks, ∀ r ∈ b.regs, r.width.ok) →
    (banks.foldl (step3Bank fl cls s1 constants) s).errors = [] →
    (banks.foldl (step3Bank fl cls s1 constants) s).banks.map SF.view = s.banks.map SF.view ++ banks.map SF.viewDecl
  | [], s, _, _ => by simp
  | b :: rest, s, hw, hclean => by
    simp only [List.foldl_cons] at hclean ⊢
    have hc : (step3Bank fl cls s1 constants s b).errors = [] :=
      banks_fold_errors_back fl cls s1 constants rest _ hclean
    rw [SF.banks_fold_banks rest _ (fun x hx => hw x (List.mem_cons_of_mem _ hx)) hclean,
      SF.step3Bank_banks fl cls s1 constants s b (hw b List.mem_cons_self) hc]
    simp
end

/-- with no diagnostic recorded, the banks of step 3 are, one for one and in order, those of the declarations -/
theorem SF.step3Of_banks_exact (fl : Flags) (cls : CharClass) (s1 : Step1) (constants : AMap WireValue)
    (hw : ∀ b ∈ s1.banksRaw, ∀ r ∈ b.regs, r.width.ok)
    (hclean : (step3Of fl cls s1 constants).errors = []) :
    (step3Of fl cls s1 constants).banks.map (fun b => (b.label, b.signals, b.stall, b.bubble)) =
      s1.banksRaw.map (fun bd => (bd.name, SF.sigsOfDecl bd, SF.stallOf bd, SF.bubbleOf bd)) := by
  unfold step3Of at hclean ⊢
  have := SF.banks_fold_banks fl cls s1 constants s1.banksRaw { wireTypes := s1.wireTypes } hw hclean
  simp only [List.map_nil, List.nil_append] at this
  exact this

/-! ### the three tables `Program::new` fills from the banks -/

theorem SF.bankOuts_of_view (bs : List RegisterBank) :
    bankOuts bs = (bs.map (fun b => (b.label, b.signals, b.stall, b.bubble))).flatMap (fun t => t.2.1.map (·.2.1)) := by
  unfold bankOuts
  rw [List.flatMap_map]

theorem SF.bankIns_of_view (bs : List RegisterBank) :
    bankIns bs = (bs.map (fun b => (b.label, b.signals, b.stall, b.bubble))).flatMap (fun t => t.2.1.map (·.1)) := by
  unfold bankIns
  rw [List.flatMap_map]

theorem SF.bankPairs_of_view (bs : List RegisterBank) :
    bankPairs bs = (bs.map (fun b => (b.label, b.signals, b.stall, b.bubble))).flatMap (fun t =>
      (t.2.1.flatMap fun sg => [(sg.2.1, sg.2.2), (sg.1, sg.2.2)]) ++ [(t.2.2.1, Width.bits 1), (t.2.2.2, Width.bits 1)]) := by
  unfold bankPairs
  rw [List.flatMap_map]

/-- the register outputs (the initially known values), in order -/
theorem SF.bankOuts_exact (fl : Flags) (cls : CharClass) (s1 : Step1) (constants : AMap WireValue)
    (hw : ∀ b ∈ s1.banksRaw, ∀ r ∈ b.regs, r.width.ok)
    (hclean : (step3Of fl cls s1 constants).errors = []) :
    bankOuts (step3Of fl cls s1 constants).banks =
      s1.banksRaw.flatMap (fun bd => (SF.sigsOfDecl bd).map (·.2.1)) := by
  rw [SF.bankOuts_of_view, SF.step3Of_banks_exact fl cls s1 constants hw hclean, List.flatMap_map]

/-- the register inputs (the wires that need an assignment), in order -/
theorem SF.bankIns_exact (fl : Flags) (cls : CharClass) (s1 : Step1) (constants : AMap WireValue)
    (hw : ∀ b ∈ s1.banksRaw, ∀ r ∈ b.regs, r.width.ok)
    (hclean : (step3Of fl cls s1 constants).errors = []) :
    bankIns (step3Of fl cls s1 constants).banks =
      s1.banksRaw.flatMap (fun bd => (SF.sigsOfDecl bd).map (·.1)) := by
  rw [SF.bankIns_of_view, SF.step3Of_banks_exact fl cls s1 constants hw hclean, List.flatMap_map]

/-- the widths recorded for the banks' wires, in order -/
theorem SF.bankPairs_exact (fl : Flags) (cls : CharClass) (s1 : Step1) (constants : AMap WireValue)
    (hw : ∀ b ∈ s1.banksRaw, ∀ r ∈ b.regs, r.width.ok)
    (hclean : (step3Of fl cls s1 constants).errors = []) :
    bankPairs (step3Of fl cls s1 constants).banks = s1.banksRaw.flatMap (fun bd =>
      ((SF.sigsOfDecl bd).flatMap fun sg => [(sg.2.1, sg.2.2), (sg.1, sg.2.2)]) ++
        [(SF.stallOf bd, .bits 1), (SF.bubbleOf bd, .bits 1)]) := by
  rw [SF.bankPairs_of_view, SF.step3Of_banks_exact fl cls s1 constants hw hclean, List.flatMap_map]

#print axioms SF.step3Of_banks_exact
#print axioms SF.bankOuts_exact
#print axioms SF.bankIns_exact
#print axioms SF.bankPairs_exact
