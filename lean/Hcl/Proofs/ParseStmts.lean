import Hcl.Model.ParserStmts
import Hcl.Proofs.ParseFuel
open Parser Lexer

/-! The fuel of the statement-level parser model (Hcl/Model/ParserStmts.lean) is only a termination device.

    * Expression positions (`parseE`) run the expression model with the fuel `14 * ts.length + 40`; by
      `parseTier_fuel_enough` that gives the result of EVERY fuel that parses the tokens (`parseE_of_parseTier`), and
      `parseE` fails only if every fuel fails (`parseE_eq_none_iff`).
    * Every list of the grammar (`parseWireDecls`, `parseConstDecls`, `parseAssigns`, `parseRegDecls`, `parseStmtsLoop`)
      consumes at least one token per turn, so with more fuel than tokens the result does not depend on the fuel
      (`..._fuel`): the loops never fail for lack of fuel.  Hence `parseStmts_fuel_independent`, and `parseProgram` is
      what any sufficient fuel gives (`parseProgram_fuel_independent`).
    * `parseStmts_ne_nil`: a successful parse has at least one statement (the grammar's `StatementsNotEof` is not empty).
    * an example program. -/

namespace Parser

/-! ### Expression positions -/

theorem parseE_consumes {ts : Toks} {v : Ex} {rest : Toks} (h : parseE ts = some (v, rest)) :
    rest.length < ts.length := by
  unfold parseE at h
  split at h
  · rename_i x s e r heq
    cases h
    exact parseTier_consumes _ _ _ _ _ _ _ heq
  · cases h

/-- whatever any fuel makes of the tokens, `parseE` makes the same -/
theorem parseE_of_parseTier (g : Nat) (ts : Toks) (x : PEx) (s e : Nat) (rest : Toks)
    (h : parseTier g 0 ts = some (x, s, e, rest)) : parseE ts = some (x.toEx, rest) := by
  unfold parseE
  rw [parseTier_fuel_enough g ts _ h]

/-- `parseE` fails only when the expression model fails with every fuel -/
theorem parseE_eq_none_iff (ts : Toks) : parseE ts = none ↔ ∀ g, parseTier g 0 ts = none := by
  constructor
  · intro h g
    cases hg : parseTier g 0 ts with
    | none => rfl
    | some r =>
      obtain ⟨x, s, e, rest⟩ := r
      rw [parseE_of_parseTier g ts x s e rest hg] at h
      cases h
  · intro h
    unfold parseE
    rw [h]

/-! ### One turn of each loop only looks at its continuation on shorter token lists -/

theorem wireDeclsStep_congr (k k' : Toks → Option (List WireDecl × Toks)) (ts : Toks)
    (h : ∀ r, r.length < ts.length → k r = k' r) : wireDeclsStep k ts = wireDeclsStep k' ts := by
  unfold wireDeclsStep
  split
  · rename_i s name e s' e' rest
    cases hs : smallConst rest with
    | none => rfl
    | some r =>
      obtain ⟨w, a, b, rest1⟩ := r
      have hl := smallConst_length hs
      simp only
      split
      · rename_i s2 e2 rest2
        rw [h rest2 (by simp only [List.length_cons] at hl ⊢; omega)]
      · rfl
  · rfl

theorem constDeclsStep_congr (k k' : Toks → Option (List ConstDecl × Toks)) (ts : Toks)
    (h : ∀ r, r.length < ts.length → k r = k' r) : constDeclsStep k ts = constDeclsStep k' ts := by
  unfold constDeclsStep
  split
  · rename_i s name e s' e' rest
    cases hs : parseE rest with
    | none => rfl
    | some r =>
      obtain ⟨v, rest1⟩ := r
      have hl := parseE_consumes hs
      simp only
      split
      · rename_i s2 e2 rest2
        rw [h rest2 (by simp only [List.length_cons] at hl ⊢; omega)]
      · rfl
  · rfl

theorem parseTargets_length (ts : Toks) : (parseTargets ts).2.length ≤ ts.length := by
  fun_induction parseTargets ts
  · rename_i r ih
    have hr : r = parseTargets _ := rfl
    rw [← hr] at ih
    simp only [List.length_cons]
    omega
  · exact Nat.le_refl _

theorem parseAssignment_consumes {ts : Toks} {a : Assignment} {rest : Toks}
    (h : parseAssignment ts = some (a, rest)) : rest.length < ts.length := by
  unfold parseAssignment at h
  have hl := parseTargets_length ts
  split at h
  · cases h
  · rename_i names rest0 hne heq
    rw [heq] at hl
    simp only at hl
    cases he : parseE rest0 with
    | none => simp only [he] at h; cases h
    | some r =>
      obtain ⟨v, rest1⟩ := r
      simp only [he] at h
      cases h
      have := parseE_consumes he
      omega

theorem assignsStep_congr (k k' : Toks → Option (List Assignment × Toks)) (ts : Toks)
    (h : ∀ r, r.length < ts.length → k r = k' r) : assignsStep k ts = assignsStep k' ts := by
  unfold assignsStep
  cases ha : parseAssignment ts with
  | none => rfl
  | some r =>
    obtain ⟨a, rest1⟩ := r
    have hl := parseAssignment_consumes ha
    simp only
    split
    · rename_i s1 e1 s name e rest2
      rw [h _ (by simp only [List.length_cons] at hl ⊢; omega)]
    · rfl
    · rfl

theorem regDeclsStep_congr (k k' : Toks → Option (List RegDecl × Toks)) (ts : Toks)
    (h : ∀ r, r.length < ts.length → k r = k' r) : regDeclsStep k ts = regDeclsStep k' ts := by
  unfold regDeclsStep
  split
  · rename_i s name e s' e' rest
    cases hs : smallConst rest with
    | none => rfl
    | some r =>
      obtain ⟨w, a, b, rest1⟩ := r
      have hl := smallConst_length hs
      simp only
      cases hx : expect Tok.Assign rest1 with
      | none => rfl
      | some r2 =>
        obtain ⟨a2, b2, rest2⟩ := r2
        have hl2 := expect_length hx
        simp only
        cases hv : parseE rest2 with
        | none => rfl
        | some r3 =>
          obtain ⟨v, rest3⟩ := r3
          have hl3 := parseE_consumes hv
          simp only
          split
          · rename_i s4 e4 rest4
            rw [h rest4 (by simp only [List.length_cons] at hl3 ⊢; omega)]
          · rfl
  · rfl

/-! ### With more fuel than tokens the lists do not depend on the fuel -/

theorem parseWireDecls_fuel : ∀ (f g : Nat) (ts : Toks), ts.length < f → ts.length < g →
    parseWireDecls f ts = parseWireDecls g ts
  | 0, _, _, hf, _ => by omega
  | _, 0, _, _, hg => by omega
  | f + 1, g + 1, ts, hf, hg => by
    unfold parseWireDecls
    exact wireDeclsStep_congr _ _ ts fun r hr => parseWireDecls_fuel f g r (by omega) (by omega)

theorem parseConstDecls_fuel : ∀ (f g : Nat) (ts : Toks), ts.length < f → ts.length < g →
    parseConstDecls f ts = parseConstDecls g ts
  | 0, _, _, hf, _ => by omega
  | _, 0, _, _, hg => by omega
  | f + 1, g + 1, ts, hf, hg => by
    unfold parseConstDecls
    exact constDeclsStep_congr _ _ ts fun r hr => parseConstDecls_fuel f g r (by omega) (by omega)

theorem parseAssigns_fuel : ∀ (f g : Nat) (ts : Toks), ts.length < f → ts.length < g →
    parseAssigns f ts = parseAssigns g ts
  | 0, _, _, hf, _ => by omega
  | _, 0, _, _, hg => by omega
  | f + 1, g + 1, ts, hf, hg => by
    unfold parseAssigns
    exact assignsStep_congr _ _ ts fun r hr => parseAssigns_fuel f g r (by omega) (by omega)

theorem parseRegDecls_fuel : ∀ (f g : Nat) (ts : Toks), ts.length < f → ts.length < g →
    parseRegDecls f ts = parseRegDecls g ts
  | 0, _, _, hf, _ => by omega
  | _, 0, _, _, hg => by omega
  | f + 1, g + 1, ts, hf, hg => by
    unfold parseRegDecls
    exact regDeclsStep_congr _ _ ts fun r hr => parseRegDecls_fuel f g r (by omega) (by omega)

/-- the fuel-free lists are what every sufficient fuel gives -/
theorem wireDecls_eq (f : Nat) (ts : Toks) (hf : ts.length < f) : parseWireDecls f ts = wireDecls ts :=
  parseWireDecls_fuel f _ ts hf (Nat.lt_succ_self _)
theorem constDecls_eq (f : Nat) (ts : Toks) (hf : ts.length < f) : parseConstDecls f ts = constDecls ts :=
  parseConstDecls_fuel f _ ts hf (Nat.lt_succ_self _)
theorem assigns_eq (f : Nat) (ts : Toks) (hf : ts.length < f) : parseAssigns f ts = assigns ts :=
  parseAssigns_fuel f _ ts hf (Nat.lt_succ_self _)
theorem regDecls_eq (f : Nat) (ts : Toks) (hf : ts.length < f) : parseRegDecls f ts = regDecls ts :=
  parseRegDecls_fuel f _ ts hf (Nat.lt_succ_self _)

/-! ### The lists leave no more than they were given; a statement consumes at least one token -/

theorem wireDeclsStep_length (k : Toks → Option (List WireDecl × Toks)) (ts : Toks)
    (hk : ∀ r ds rest, k r = some (ds, rest) → rest.length ≤ r.length) (ds : List WireDecl) (rest : Toks)
    (h : wireDeclsStep k ts = some (ds, rest)) : rest.length ≤ ts.length := by
  unfold wireDeclsStep at h
  split at h
  · rename_i s name e s' e' rest0
    cases hs : smallConst rest0 with
    | none => simp only [hs] at h; cases h
    | some r =>
      obtain ⟨w, a, b, rest1⟩ := r
      have hl := smallConst_length hs
      simp only [hs] at h
      split at h
      · rename_i s2 e2 rest2
        cases hk2 : k rest2 with
        | none => simp only [hk2] at h; cases h
        | some r2 =>
          obtain ⟨ds2, rest3⟩ := r2
          simp only [hk2] at h
          cases h
          have := hk _ _ _ hk2
          simp only [List.length_cons] at hl ⊢
          omega
      · cases h
        simp only [List.length_cons]
        omega
  · cases h
    exact Nat.le_refl _

theorem parseWireDecls_length : ∀ (f : Nat) (ts : Toks) (ds : List WireDecl) (rest : Toks),
    parseWireDecls f ts = some (ds, rest) → rest.length ≤ ts.length
  | 0, _, _, _, h => by unfold parseWireDecls at h; cases h
  | f + 1, ts, ds, rest, h => by
    unfold parseWireDecls at h
    exact wireDeclsStep_length _ ts (fun r ds rest hr => parseWireDecls_length f r ds rest hr) ds rest h

theorem constDeclsStep_length (k : Toks → Option (List ConstDecl × Toks)) (ts : Toks)
    (hk : ∀ r ds rest, k r = some (ds, rest) → rest.length ≤ r.length) (ds : List ConstDecl) (rest : Toks)
    (h : constDeclsStep k ts = some (ds, rest)) : rest.length ≤ ts.length := by
  unfold constDeclsStep at h
  split at h
  · rename_i s name e s' e' rest0
    cases hs : parseE rest0 with
    | none => simp only [hs] at h; cases h
    | some r =>
      obtain ⟨v, rest1⟩ := r
      have hl := parseE_consumes hs
      simp only [hs] at h
      split at h
      · rename_i s2 e2 rest2
        cases hk2 : k rest2 with
        | none => simp only [hk2] at h; cases h
        | some r2 =>
          obtain ⟨ds2, rest3⟩ := r2
          simp only [hk2] at h
          cases h
          have := hk _ _ _ hk2
          simp only [List.length_cons] at hl ⊢
          omega
      · cases h
        simp only [List.length_cons]
        omega
  · cases h
    exact Nat.le_refl _

theorem parseConstDecls_length : ∀ (f : Nat) (ts : Toks) (ds : List ConstDecl) (rest : Toks),
    parseConstDecls f ts = some (ds, rest) → rest.length ≤ ts.length
  | 0, _, _, _, h => by unfold parseConstDecls at h; cases h
  | f + 1, ts, ds, rest, h => by
    unfold parseConstDecls at h
    exact constDeclsStep_length _ ts (fun r ds rest hr => parseConstDecls_length f r ds rest hr) ds rest h

theorem assignsStep_length (k : Toks → Option (List Assignment × Toks)) (ts : Toks)
    (hk : ∀ r ds rest, k r = some (ds, rest) → rest.length ≤ r.length) (ds : List Assignment) (rest : Toks)
    (h : assignsStep k ts = some (ds, rest)) : rest.length < ts.length := by
  unfold assignsStep at h
  cases ha : parseAssignment ts with
  | none => simp only [ha] at h; cases h
  | some r =>
    obtain ⟨a, rest1⟩ := r
    have hl := parseAssignment_consumes ha
    simp only [ha] at h
    split at h
    · rename_i s1 e1 s name e rest2
      cases hk2 : k ((s, Tok.Identifier name, e) :: rest2) with
      | none => simp only [hk2] at h; cases h
      | some r2 =>
        obtain ⟨ds2, rest3⟩ := r2
        simp only [hk2] at h
        cases h
        have := hk _ _ _ hk2
        simp only [List.length_cons] at hl this ⊢
        omega
    · cases h
      simp only [List.length_cons] at hl
      omega
    · cases h
      exact hl

theorem parseAssigns_length : ∀ (f : Nat) (ts : Toks) (ds : List Assignment) (rest : Toks),
    parseAssigns f ts = some (ds, rest) → rest.length ≤ ts.length
  | 0, _, _, _, h => by unfold parseAssigns at h; cases h
  | f + 1, ts, ds, rest, h => by
    unfold parseAssigns at h
    exact Nat.le_of_lt
      (assignsStep_length _ ts (fun r ds rest hr => parseAssigns_length f r ds rest hr) ds rest h)

theorem regDeclsStep_length (k : Toks → Option (List RegDecl × Toks)) (ts : Toks)
    (hk : ∀ r ds rest, k r = some (ds, rest) → rest.length ≤ r.length) (ds : List RegDecl) (rest : Toks)
    (h : regDeclsStep k ts = some (ds, rest)) : rest.length ≤ ts.length := by
  unfold regDeclsStep at h
  split at h
  · rename_i s name e s' e' rest0
    cases hs : smallConst rest0 with
    | none => simp only [hs] at h; cases h
    | some r =>
      obtain ⟨w, a, b, rest1⟩ := r
      have hl := smallConst_length hs
      simp only [hs] at h
      cases hx : expect Tok.Assign rest1 with
      | none => simp only [hx] at h; cases h
      | some r2 =>
        obtain ⟨a2, b2, rest2⟩ := r2
        have hl2 := expect_length hx
        simp only [hx] at h
        cases hv : parseE rest2 with
        | none => simp only [hv] at h; cases h
        | some r3 =>
          obtain ⟨v, rest3⟩ := r3
          have hl3 := parseE_consumes hv
          simp only [hv] at h
          split at h
          · rename_i s4 e4 rest4
            cases hk2 : k rest4 with
            | none => simp only [hk2] at h; cases h
            | some r4 =>
              obtain ⟨ds2, rest5⟩ := r4
              simp only [hk2] at h
              cases h
              have := hk _ _ _ hk2
              simp only [List.length_cons] at hl3 ⊢
              omega
          · cases h
            simp only [List.length_cons]
            omega
  · cases h
    exact Nat.le_refl _

theorem parseRegDecls_length : ∀ (f : Nat) (ts : Toks) (ds : List RegDecl) (rest : Toks),
    parseRegDecls f ts = some (ds, rest) → rest.length ≤ ts.length
  | 0, _, _, _, h => by unfold parseRegDecls at h; cases h
  | f + 1, ts, ds, rest, h => by
    unfold parseRegDecls at h
    exact regDeclsStep_length _ ts (fun r ds rest hr => parseRegDecls_length f r ds rest hr) ds rest h

theorem parseBank_consumes {ts : Toks} {b : BankDecl} {rest : Toks} (h : parseBank ts = some (b, rest)) :
    rest.length < ts.length := by
  unfold parseBank at h
  split at h
  · rename_i s name e s' e' rest0
    cases hr : regDecls rest0 with
    | none => simp only [hr] at h; cases h
    | some r =>
      obtain ⟨regs, rest1⟩ := r
      have hl := parseRegDecls_length _ _ _ _ hr
      simp only [hr] at h
      cases hx : expect Tok.CloseBrace rest1 with
      | none => simp only [hx] at h; cases h
      | some r2 =>
        obtain ⟨a2, b2, rest2⟩ := r2
        have hl2 := expect_length hx
        simp only [hx] at h
        cases h
        simp only [List.length_cons]
        omega
  · cases h

theorem parseNeedSemi_consumes {ts : Toks} {st : Stmt} {rest : Toks} (h : parseNeedSemi ts = some (st, rest)) :
    rest.length < ts.length := by
  unfold parseNeedSemi at h
  split at h
  · rename_i s e rest0
    cases hr : wireDecls rest0 with
    | none => simp only [hr] at h; cases h
    | some r =>
      obtain ⟨ds, rest1⟩ := r
      have hl := parseWireDecls_length _ _ _ _ hr
      simp only [hr] at h
      cases h
      simp only [List.length_cons]
      omega
  · rename_i s e rest0
    cases hr : constDecls rest0 with
    | none => simp only [hr] at h; cases h
    | some r =>
      obtain ⟨ds, rest1⟩ := r
      have hl := parseConstDecls_length _ _ _ _ hr
      simp only [hr] at h
      cases h
      simp only [List.length_cons]
      omega
  · rename_i s name e rest0
    cases hr : assigns ((s, Tok.Identifier name, e) :: rest0) with
    | none => simp only [hr] at h; cases h
    | some r =>
      obtain ⟨ds, rest1⟩ := r
      simp only [hr] at h
      cases h
      unfold assigns parseAssigns at hr
      exact assignsStep_length _ _ (fun r ds rest hr => parseAssigns_length _ r ds rest hr) _ _ hr
  · cases h

/-! ### The statement loop -/

theorem stmtsStep_congr (k k' : Toks → Option (List Stmt)) (started : Bool) (ts : Toks)
    (h : ∀ r, r.length < ts.length → k r = k' r) : stmtsStep k started ts = stmtsStep k' started ts := by
  unfold stmtsStep
  split
  · rfl
  · rename_i s e rest
    rw [h rest (by simp only [List.length_cons]; omega)]
  · rename_i s e rest
    cases hb : parseBank rest with
    | none => rfl
    | some r =>
      obtain ⟨b, rest1⟩ := r
      have hl := parseBank_consumes hb
      simp only
      rw [h rest1 (by simp only [List.length_cons]; omega)]
  · rename_i t rest h1 h2
    cases hn : parseNeedSemi (t :: rest) with
    | none => rfl
    | some r =>
      obtain ⟨st, rest1⟩ := r
      have hl := parseNeedSemi_consumes hn
      simp only
      split
      · rename_i s2 e2 rest2
        rw [h rest2 (by simp only [List.length_cons] at hl ⊢; omega)]
      · rfl
      · rfl

theorem parseStmtsLoop_fuel : ∀ (f g : Nat) (started : Bool) (ts : Toks), ts.length < f → ts.length < g →
    parseStmtsLoop f started ts = parseStmtsLoop g started ts
  | 0, _, _, _, hf, _ => by omega
  | _, 0, _, _, _, hg => by omega
  | f + 1, g + 1, started, ts, hf, hg => by
    unfold parseStmtsLoop
    exact stmtsStep_congr _ _ started ts fun r hr => parseStmtsLoop_fuel f g true r (by omega) (by omega)

/-- **The fuel of `parseStmts` is only a termination device**: with more fuel than tokens the result -- success
    and failure alike -- does not depend on it. -/
theorem parseStmts_fuel_independent (f g : Nat) (ts : Toks) (hf : ts.length < f) (hg : ts.length < g) :
    parseStmts f ts = parseStmts g ts :=
  parseStmtsLoop_fuel f g false ts hf hg

/-- `parseProgram` is what every sufficient fuel gives -/
theorem parseProgram_fuel_independent (cls : CharCls) (text : List Char) (ts : Toks) (f : Nat)
    (hts : tokensOf (lex cls text) = some ts) (hf : ts.length < f) : parseProgram cls text = parseStmts f ts := by
  unfold parseProgram
  simp only [hts]
  exact parseStmts_fuel_independent _ _ ts (Nat.lt_succ_self _) hf

/-- a lexical error anywhere makes `parseProgram` fail -/
theorem parseProgram_lex_error (cls : CharCls) (text : List Char) (h : tokensOf (lex cls text) = none) :
    parseProgram cls text = none := by
  unfold parseProgram
  simp only [h]

/-! ### `StatementsNotEof` is not empty -/

theorem stmtsStep_false_ne_nil (k : Toks → Option (List Stmt)) (ts : Toks) (l : List Stmt)
    (h : stmtsStep k false ts = some l) : l ≠ [] := by
  unfold stmtsStep at h
  split at h
  · simp at h
  · simp at h
  · rename_i s e rest
    cases hb : parseBank rest with
    | none => simp only [hb] at h; cases h
    | some r =>
      obtain ⟨b, rest1⟩ := r
      simp only [hb] at h
      cases hk : k rest1 with
      | none => simp only [hk] at h; cases h
      | some more => simp only [hk] at h; cases h; exact List.cons_ne_nil _ _
  · rename_i t rest h1 h2
    cases hn : parseNeedSemi (t :: rest) with
    | none => simp only [hn] at h; cases h
    | some r =>
      obtain ⟨st, rest1⟩ := r
      simp only [hn] at h
      split at h
      · rename_i s2 e2 rest2
        cases hk : k rest2 with
        | none => simp only [hk] at h; cases h
        | some more => simp only [hk] at h; cases h; exact List.cons_ne_nil _ _
      · simp at h
      · cases h

/-- a successful parse has at least one statement, and the text at least one token: the empty text, and a text of
    semicolons only, are not programs -/
theorem parseStmts_ne_nil (f : Nat) (ts : Toks) (l : List Stmt) (h : parseStmts f ts = some l) : l ≠ [] ∧ ts ≠ [] := by
  unfold parseStmts at h
  cases f with
  | zero => unfold parseStmtsLoop at h; cases h
  | succ n =>
    unfold parseStmtsLoop at h
    refine ⟨stmtsStep_false_ne_nil _ ts l h, ?_⟩
    intro hts
    subst hts
    unfold stmtsStep at h
    simp at h

/-! ### An example -/

/-- wire declarations, a chained assignment, a register bank without a semicolon after it -/
example : parseProgram asciiCls "wire a:8, b:4; a = b = 3; register xY { r:8 = 0; }".toList =
    some [.wires [⟨"a", .bits 8⟩, ⟨"b", .bits 4⟩],
          .assigns [⟨["a", "b"], .const ⟨3, .unlimited⟩⟩],
          .bank ⟨"xY", [⟨"r", .bits 8, .const ⟨0, .unlimited⟩⟩]⟩] := by decide +kernel

/-- comma-separated assignments with a trailing comma, an empty `wire` declaration, stray semicolons, and a last
    statement without its semicolon -/
example : parseProgram asciiCls "x = 1, y = z = (x .. 0b11),; wire ;;; const K = x in {1, 2}".toList =
    some [.assigns [⟨["x"], .const ⟨1, .unlimited⟩⟩,
                    ⟨["y", "z"], .concat (.wire "x") (.const ⟨3, .bits 2⟩)⟩],
          .wires [],
          .consts [⟨"K", .inSet (.wire "x") (.cons (.const ⟨1, .unlimited⟩) (.cons (.const ⟨2, .unlimited⟩) .nil))⟩]] := by
  decide +kernel

/-- not programs: the empty text; a single statement without semicolon; a wire without width; a width above 128;
    a bare expression -/
example : parseProgram asciiCls "".toList = none := by decide +kernel
example : parseProgram asciiCls "x = 1".toList = none := by decide +kernel
example : parseProgram asciiCls "wire a;".toList = none := by decide +kernel
example : parseProgram asciiCls "wire a:129;".toList = none := by decide +kernel
example : parseProgram asciiCls "x = 1; (x);".toList = none := by decide +kernel

end Parser

#print axioms Parser.parseE_of_parseTier
#print axioms Parser.parseE_eq_none_iff
#print axioms Parser.parseWireDecls_fuel
#print axioms Parser.parseConstDecls_fuel
#print axioms Parser.parseAssigns_fuel
#print axioms Parser.parseRegDecls_fuel
#print axioms Parser.parseStmts_fuel_independent
#print axioms Parser.parseProgram_fuel_independent
#print axioms Parser.parseStmts_ne_nil
