import Hcl.Proofs.ProgramSpansPoints2Check
open Rust

/-! Stages 2 to 4 of `C14_diag_points_at`: the diagnostics of `resolveConstantsSp` (step 2), of `step3BankSp` and of the
    unset-wire pass (steps 3 and 4) and of `assignmentsToActionsSp` (step 5) are located as `Spec.PointsAt` asks, given
    that the tables of step 1 hold spans and expressions of the program (`Tbl`, Hcl/Proofs/ProgramSpansPoints.lean). -/

namespace Parser
open Spec

theorem wl_append (ss : List SStmt) (a b : List DiagSp) (ha : ∀ d ∈ a, WL ss d) (hb : ∀ d ∈ b, WL ss d) :
    ∀ d ∈ a ++ b, WL ss d := by
  intro d hd
  rcases List.mem_append.mp hd with hd | hd
  · exact ha d hd
  · exact hb d hd

/-! ### step 2 -/

theorem resolveLoopSp_wl (ss : List SStmt) (fl : Flags) (exprs : AMap PEx) (hE : ∀ p ∈ exprs, p.2 ∈ exprsOf ss) :
    ∀ (names : List String) (res : AMap WireValue) (errs : List DiagSp), (∀ d ∈ errs, WL ss d) →
      ∀ d ∈ (resolveLoopSp fl exprs names res errs).2, WL ss d
  | [], res, errs, h => by unfold resolveLoopSp; exact h
  | name :: rest, res, errs, h => by
    unfold resolveLoopSp
    cases hg : AMap.get? exprs name with
    | none => exact wl_append ss _ _ h (panicSp_wl ss)
    | some x =>
      simp only
      have hx : x ∈ exprsOf ss := hE _ (get?_mem _ _ _ hg)
      cases hc : checkFixEvalSp fl (AMap.toCtx (res.map fun p => (p.1, p.2.width))) (AMap.toEnv res) x with
      | ok v => exact resolveLoopSp_wl ss fl exprs hE rest _ errs h
      | error ds =>
        exact resolveLoopSp_wl ss fl exprs hE rest res (errs ++ ds)
          (wl_append ss _ _ h (checkFixEvalSp_points ss fl res x hx ds hc))

/-- **stage 2**: the diagnostics of the constants -/
theorem resolveConstantsSp_wl (ss : List SStmt) (fl : Flags) (o : Orders) (exprs : AMap PEx)
    (hE : ∀ p ∈ exprs, p.2 ∈ exprsOf ss) (ds : List DiagSp) (h : resolveConstantsSp fl o exprs = .error ds) :
    ∀ d ∈ ds, WL ss d := by
  unfold resolveConstantsSp at h
  cases hs : (constGraph (eraseVals exprs)).sort o with
  | ok sorted =>
    rw [hs] at h
    simp only at h
    have hl := resolveLoopSp_wl ss fl exprs hE sorted [] [] (by simp)
    generalize resolveLoopSp fl exprs sorted [] [] = a at h hl
    obtain ⟨res, errs⟩ := a
    simp only at h hl
    split at h
    · cases h
    · cases h; exact hl
  | cycle c =>
    rw [hs] at h
    cases h
    intro d hd
    rw [List.mem_singleton.mp hd]
    trivial
  | panic =>
    rw [hs] at h
    cases h
    exact panicSp_wl ss

/-! ### step 3 -/

theorem bank_mem (ss : List SStmt) (b : SBankDecl) (h : b ∈ banksOf ss) : SStmt.bank b ∈ ss := by
  obtain ⟨st, hst, hb⟩ := List.mem_flatMap.mp h
  cases st with
  | bank b' => simp only [List.mem_singleton] at hb; rw [hb]; exact hst
  | consts ds => simp at hb
  | wires ds => simp at hb
  | assigns as => simp at hb

theorem regDefault_expr (ss : List SStmt) (b : SBankDecl) (h : b ∈ banksOf ss) (r : SRegDecl) (hr : r ∈ b.registers) :
    r.default ∈ exprsOf ss :=
  List.mem_flatMap.mpr ⟨_, bank_mem ss b h, List.mem_map.mpr ⟨r, hr, rfl⟩⟩

theorem regSignals (ss : List SStmt) (b : SBankDecl) (h : b ∈ banksOf ss) (i o : Char) (hn : b.name.toList = [i, o])
    (r : SRegDecl) (hr : r ∈ b.registers) :
    RegisterOf ss (String.ofList [i, '_'] ++ r.name) r.span ∧ RegisterOf ss (String.ofList [o, '_'] ++ r.name) r.span := by
  have key : ∀ n, n = String.ofList [i, '_'] ++ r.name ∨ n = String.ofList [o, '_'] ++ r.name → (n, b, r) ∈ regSignalsOf ss := by
    intro n hn'
    refine List.mem_flatMap.mpr ⟨b, h, ?_⟩
    rw [hn]
    simp only
    refine List.mem_flatMap.mpr ⟨r, hr, ?_⟩
    rcases hn' with rfl | rfl <;> simp
  exact ⟨⟨b, r, key _ (Or.inl rfl), rfl⟩, ⟨b, r, key _ (Or.inr rfl), rfl⟩⟩

theorem contains_of_get? {α} (m : AMap α) (k : String) (v : α) (h : AMap.get? m k = some v) : AMap.contains m k = true := by
  rw [← AMap.get?_isSome_iff_contains, h]; rfl

/-- the state of step 3 holds diagnostics located as asked and spans of registers -/
structure Tbl3 (ss : List SStmt) (s : Step3Sp) : Prop where
  errors : ∀ d ∈ s.errors, WL ss d
  seen : ∀ p ∈ s.seenRegisters, RegisterOf ss p.1 p.2
  regIns : ∀ p ∈ s.registerIns, RegisterOf ss p.1 p.2

theorem seenIn_wl (ss : List SStmt) (seen1 : AMap Span) (hseen1 : ∀ p ∈ seen1, RegisterOf ss p.1 p.2) (inName : String)
    (r : SRegDecl) (hin : RegisterOf ss inName r.span) :
    ∀ d ∈ (match AMap.get? seen1 inName with
      | some old => [(⟨.DoubleDeclaredRegisterOutWire, [inName], [old, r.span]⟩ : DiagSp)]
      | none => []), WL ss d := by
  intro d hd
  cases hg : AMap.get? seen1 inName with
  | none => rw [hg] at hd; cases hd
  | some old =>
    rw [hg] at hd
    rw [List.mem_singleton.mp hd]
    simp only [WL, PointsAt, DiagSp.erase]
    exact ⟨hseen1 _ (get?_mem _ _ _ hg), hin⟩

theorem seenIn_tbl (ss : List SStmt) (seen1 : AMap Span) (hseen1 : ∀ p ∈ seen1, RegisterOf ss p.1 p.2) (inName : String)
    (r : SRegDecl) (hin : RegisterOf ss inName r.span) :
    ∀ p ∈ (match AMap.get? seen1 inName with
      | some _ => seen1
      | none => seen1 ++ [(inName, r.span)]), RegisterOf ss p.1 p.2 := by
  intro p hp
  cases hg : AMap.get? seen1 inName with
  | some old => rw [hg] at hp; exact hseen1 p hp
  | none =>
    rw [hg] at hp
    rcases List.mem_append.mp hp with hp | hp
    · exact hseen1 p hp
    · rw [List.mem_singleton.mp hp]; exact hin

theorem regPreSp_wl (ss : List SStmt) (t1 : Step1Sp) (ht : Tbl ss t1) (constants : AMap WireValue)
    (bank inName outName : String) (acc : BankAcc) (seen : AMap Span) (r : SRegDecl)
    (hseen : ∀ p ∈ seen, RegisterOf ss p.1 p.2) (hin : RegisterOf ss inName r.span) (hout : RegisterOf ss outName r.span)
    (hdef : r.default ∈ exprsOf ss) :
    (∀ d ∈ (regPreSp t1 constants bank inName outName acc seen r).1, WL ss d) ∧
    ∀ p ∈ (regPreSp t1 constants bank inName outName acc seen r).2, RegisterOf ss p.1 p.2 := by
  -- the table after the output signal
  have hseen1 : ∀ p ∈ (match AMap.get? seen outName with
      | some _ => seen
      | none => seen ++ [(outName, r.span)]), RegisterOf ss p.1 p.2 := by
    intro p hp
    cases hg : AMap.get? seen outName with
    | some old => rw [hg] at hp; exact hseen p hp
    | none =>
      rw [hg] at hp
      rcases List.mem_append.mp hp with hp | hp
      · exact hseen p hp
      · rw [List.mem_singleton.mp hp]; exact hout
  unfold regPreSp
  simp only []
  constructor
  · intro d hd
    simp only [List.mem_append] at hd
    rcases hd with ((((hd | hd) | hd) | hd) | hd) | hd
    · obtain ⟨n, _, hd⟩ := List.mem_flatMap.mp hd
      by_cases hc : (t1.s.wires.contains n && !AMap.contains constants n) = true
      · simp only [hc, if_true] at hd
        obtain ⟨sp, hsp, rfl⟩ := List.mem_map.mp hd
        obtain ⟨a, b, h1, h2⟩ := refSpans_sub n r.default sp hsp
        simp only [WL, PointsAt, DiagSp.erase]
        exact ⟨r.default, hdef, a, b, h1, h2⟩
      · simp [hc] at hd
    · obtain ⟨n, hn, hd⟩ := List.mem_flatMap.mp hd
      cases hg : AMap.get? t1.declSpans n with
      | none => rw [hg] at hd; cases hd
      | some other =>
        rw [hg] at hd
        rw [List.mem_singleton.mp hd]
        have hdecl := ht.decl _ (get?_mem _ _ _ hg)
        simp only [WL, PointsAt, DiagSp.erase]
        simp only [List.mem_cons, List.mem_nil_iff, or_false] at hn
        rcases hn with rfl | rfl
        · exact ⟨Or.inr (Or.inl hin), hdecl⟩
        · exact ⟨Or.inr (Or.inl hout), hdecl⟩
    · by_cases hc : AMap.contains acc.defaults outName = true
      · simp only [hc, if_true, List.mem_singleton] at hd
        rw [hd]; trivial
      · simp [hc] at hd
    · by_cases hc : AMap.contains t1.assigns outName = true
      · simp only [hc, if_true, List.mem_singleton] at hd
        rw [hd]
        simp only [WL, PointsAt, DiagSp.erase]
        exact ⟨hout, ht.asg _ (spanOf_mem _ _ (ht.assignsSp _ hc))⟩
      · simp [hc] at hd
    · cases hg : AMap.get? seen outName with
      | none => rw [hg] at hd; cases hd
      | some old =>
        rw [hg] at hd
        rw [List.mem_singleton.mp hd]
        simp only [WL, PointsAt, DiagSp.erase]
        exact ⟨hseen _ (get?_mem _ _ _ hg), hout⟩
    · exact seenIn_wl ss _ hseen1 inName r hin d hd
  · exact seenIn_tbl ss _ hseen1 inName r hin

theorem regEvalSp_wl (ss : List SStmt) (fl : Flags) (constants : AMap WireValue) (bank inName outName : String)
    (s : Step3Sp) (acc : BankAcc) (r : SRegDecl) (h : Tbl3 ss s) (hin : RegisterOf ss inName r.span)
    (hdef : r.default ∈ exprsOf ss)
    (hmis : WL ss ⟨.MismatchedRegisterDefaultWidths, [bank, r.name], [r.default.span]⟩) :
    Tbl3 ss (regEvalSp fl constants bank inName outName s acc r).1 := by
  unfold regEvalSp
  simp only []
  cases hc : checkFixEvalSp fl (AMap.toCtx (constants.map fun p => (p.1, p.2.width))) (AMap.toEnv constants) r.default with
  | error ds =>
    exact ⟨wl_append ss _ _ h.errors (checkFixEvalSp_points ss fl constants r.default hdef ds hc), h.seen, h.regIns⟩
  | ok value =>
    simp only
    have he7 : ∀ d ∈ (match value.width.combine r.width with
        | some _ => ([] : List DiagSp)
        | none => [⟨.MismatchedRegisterDefaultWidths, [bank, r.name], [r.default.span]⟩]), WL ss d := by
      intro d hd
      cases hcomb : value.width.combine r.width with
      | some w => rw [hcomb] at hd; cases hd
      | none => rw [hcomb] at hd; rw [List.mem_singleton.mp hd]; exact hmis
    cases hasw : asWidth value r.width with
    | ok dv =>
      refine ⟨wl_append ss _ _ h.errors he7, h.seen, ?_⟩
      intro p hp
      rcases AMap.mem_insert _ _ _ _ hp with hp | hp
      · exact h.regIns p hp
      · rw [hp]; exact hin
    | error e =>
      exact ⟨wl_append ss _ _ (wl_append ss _ _ h.errors he7) (panicSp_wl ss), h.seen, h.regIns⟩

theorem step3RegisterSp_wl (ss : List SStmt) (fl : Flags) (t1 : Step1Sp) (ht : Tbl ss t1) (constants : AMap WireValue)
    (bank : String) (inP outP : Char) (s : Step3Sp) (acc : BankAcc) (r : SRegDecl) (h : Tbl3 ss s)
    (hin : RegisterOf ss (String.ofList [inP, '_'] ++ r.name) r.span)
    (hout : RegisterOf ss (String.ofList [outP, '_'] ++ r.name) r.span)
    (hdef : r.default ∈ exprsOf ss)
    (hmis : WL ss ⟨.MismatchedRegisterDefaultWidths, [bank, r.name], [r.default.span]⟩) :
    Tbl3 ss (step3RegisterSp fl t1 constants bank inP outP (s, acc) r).1 := by
  unfold step3RegisterSp
  simp only []
  have hp := regPreSp_wl ss t1 ht constants bank (String.ofList [inP, '_'] ++ r.name) (String.ofList [outP, '_'] ++ r.name)
    acc s.seenRegisters r h.seen hin hout hdef
  have hs' : Tbl3 ss
      { s with wireTypes := (s.wireTypes.insert (String.ofList [inP, '_'] ++ r.name) .bankInput).insert (String.ofList [outP, '_'] ++ r.name) .bankOutput,
               seenRegisters := (regPreSp t1 constants bank (String.ofList [inP, '_'] ++ r.name) (String.ofList [outP, '_'] ++ r.name) acc s.seenRegisters r).2,
               errors := s.errors ++ (regPreSp t1 constants bank (String.ofList [inP, '_'] ++ r.name) (String.ofList [outP, '_'] ++ r.name) acc s.seenRegisters r).1 } :=
    ⟨wl_append ss _ _ h.errors hp.1, hp.2, h.regIns⟩
  by_cases he : (!(regPreSp t1 constants bank (String.ofList [inP, '_'] ++ r.name) (String.ofList [outP, '_'] ++ r.name) acc s.seenRegisters r).1.isEmpty) = true
  · rw [if_pos he]; exact hs'
  · rw [if_neg he]
    exact regEvalSp_wl ss fl constants bank _ _ _ acc r hs' hin hdef hmis

theorem foldl_registers_wl (ss : List SStmt) (fl : Flags) (t1 : Step1Sp) (ht : Tbl ss t1) (constants : AMap WireValue)
    (b : SBankDecl) (hb : b ∈ banksOf ss) (inP outP : Char) (hn : b.name.toList = [inP, outP]) :
    ∀ (regs : List SRegDecl), (∀ r ∈ regs, r ∈ b.registers) → ∀ (s : Step3Sp) (acc : BankAcc), Tbl3 ss s →
      Tbl3 ss (regs.foldl (step3RegisterSp fl t1 constants b.name inP outP) (s, acc)).1
  | [], _, s, acc, h => h
  | r :: rest, hr, s, acc, h => by
    simp only [List.foldl_cons]
    have hrb : r ∈ b.registers := hr r (by simp)
    obtain ⟨hin, hout⟩ := regSignals ss b hb inP outP hn r hrb
    have hmis : WL ss ⟨.MismatchedRegisterDefaultWidths, [b.name, r.name], [r.default.span]⟩ := by
      simp only [WL, PointsAt, DiagSp.erase]
      exact ⟨b, hb, r, hrb, rfl, rfl, rfl⟩
    have h2 := step3RegisterSp_wl ss fl t1 ht constants b.name inP outP s acc r h hin hout (regDefault_expr ss b hb r hrb) hmis
    generalize step3RegisterSp fl t1 constants b.name inP outP (s, acc) r = a at h2 ⊢
    obtain ⟨a1, a2⟩ := a
    exact foldl_registers_wl ss fl t1 ht constants b hb inP outP hn rest (fun r' hr' => hr r' (by simp [hr'])) a1 a2 h2

theorem step3BankSp_wl (ss : List SStmt) (fl : Flags) (cls : CharClass) (t1 : Step1Sp) (ht : Tbl ss t1)
    (constants : AMap WireValue) (s : Step3Sp) (b : SBankDecl) (hb : b ∈ banksOf ss) (h : Tbl3 ss s) :
    Tbl3 ss (step3BankSp fl cls t1 constants s b) := by
  unfold step3BankSp
  have hbad : Tbl3 ss { s with errors := s.errors ++ [⟨.InvalidRegisterBankName, [b.name], [b.nameSpan]⟩] } := by
    refine ⟨wl_append ss _ _ h.errors ?_, h.seen, h.regIns⟩
    intro d hd
    rw [List.mem_singleton.mp hd]
    simp only [WL, PointsAt, DiagSp.erase]
    exact ⟨b, hb, rfl, rfl⟩
  cases hl : b.name.toList with
  | nil => exact hbad
  | cons inP rest =>
    cases rest with
    | nil => exact hbad
    | cons outP rest2 =>
      cases rest2 with
      | cons c r3 => exact hbad
      | nil =>
        try simp only
        by_cases hcls : (!cls.isLower inP || !cls.isUpper outP) = true
        · rw [if_pos hcls]; exact hbad
        · rw [if_neg hcls]
          have he0 : ∀ d ∈ (["stall_" ++ String.ofList [outP], "bubble_" ++ String.ofList [outP]].flatMap fun n =>
              match AMap.get? t1.declSpans n with
              | some other => [(⟨.RedeclaredWire, [n], [b.nameSpan, other]⟩ : DiagSp)]
              | none => []), WL ss d := by
            intro d hd
            obtain ⟨n, hn, hd⟩ := List.mem_flatMap.mp hd
            cases hg : AMap.get? t1.declSpans n with
            | none => rw [hg] at hd; cases hd
            | some other =>
              rw [hg] at hd
              rw [List.mem_singleton.mp hd]
              have hctl : n ∈ controlSignalsOf b := by
                unfold controlSignalsOf
                rw [hl]
                exact hn
              simp only [WL, PointsAt, DiagSp.erase]
              exact ⟨Or.inr (Or.inr ⟨b, hb, hctl, rfl⟩), ht.decl _ (get?_mem _ _ _ hg)⟩
          have H := foldl_registers_wl ss fl t1 ht constants b hb inP outP hl b.registers (fun _ hr => hr)
          have hs0 : ∀ (dd : List String) (wt : AMap WireType), Tbl3 ss
              { s with errors := s.errors ++ (["stall_" ++ String.ofList [outP], "bubble_" ++ String.ofList [outP]].flatMap fun n =>
                  match AMap.get? t1.declSpans n with
                  | some other => [(⟨.RedeclaredWire, [n], [b.nameSpan, other]⟩ : DiagSp)]
                  | none => [])
                       defaulted := dd
                       wireTypes := wt } :=
            fun _ _ => ⟨wl_append ss _ _ h.errors he0, h.seen, h.regIns⟩
          exact ⟨(H _ _ (hs0 _ _)).errors, (H _ _ (hs0 _ _)).seen, (H _ _ (hs0 _ _)).regIns⟩

theorem foldl_banks_wl (ss : List SStmt) (fl : Flags) (cls : CharClass) (t1 : Step1Sp) (ht : Tbl ss t1)
    (constants : AMap WireValue) : ∀ (bs : List SBankDecl), (∀ b ∈ bs, b ∈ banksOf ss) → ∀ (s : Step3Sp), Tbl3 ss s →
      Tbl3 ss (bs.foldl (step3BankSp fl cls t1 constants) s)
  | [], _, _, h => h
  | b :: rest, hb, s, h => by
    simp only [List.foldl_cons]
    exact foldl_banks_wl ss fl cls t1 ht constants rest (fun b' hb' => hb b' (by simp [hb'])) _
      (step3BankSp_wl ss fl cls t1 ht constants s b (hb b (by simp)) h)

/-! ### step 5: `preprocess_fixed` -/

def NoLoc (d : Diag) : Prop := d.kind = .InternalPanic ∨ d.kind = .UnsetBuiltinWire ∨ d.kind = .PartialFixedInput

def AllNoLoc (l : List Diag) : Prop := ∀ d ∈ l, NoLoc d

theorem allNoLoc_append (a b : List Diag) : AllNoLoc (a ++ b) ↔ AllNoLoc a ∧ AllNoLoc b := by
  unfold AllNoLoc
  constructor
  · intro h; exact ⟨fun d hd => h d (by simp [hd]), fun d hd => h d (by simp [hd])⟩
  · intro h d hd
    rcases List.mem_append.mp hd with hd | hd
    · exact h.1 d hd
    · exact h.2 d hd

theorem preprocessOne_noLoc (fl : Flags) (widths : AMap Width) (constants : AMap WireValue) (assignments : AMap Ex)
    (known : List String) (st : PreState) (f : FixedFunction) (h : AllNoLoc st.errors) :
    AllNoLoc (preprocessOne fl widths constants assignments known st f).errors := by
  unfold preprocessOne
  simp only []
  have hp : AllNoLoc panicDiag := by
    intro d hd
    simp only [panicDiag, List.mem_singleton] at hd
    rw [hd]; exact Or.inl rfl
  have hm : ∀ l : List String, AllNoLoc (l.map fun n => (⟨.UnsetBuiltinWire, [n]⟩ : Diag)) := by
    intro l d hd
    obtain ⟨n, _, rfl⟩ := List.mem_map.mp hd
    exact Or.inr (Or.inl rfl)
  have hpf : ∀ ns : List String, AllNoLoc [(⟨.PartialFixedInput, ns⟩ : Diag)] := by
    intro ns d hd
    rw [List.mem_singleton.mp hd]
    exact Or.inr (Or.inr rfl)
  have hnil : AllNoLoc [] := fun d hd => by cases hd
  repeat' split
  all_goals simp only [allNoLoc_append, h, hp, hm, hpf, hnil, and_self]

theorem preprocess_fold_noLoc (fl : Flags) (widths : AMap Width) (constants : AMap WireValue) (assignments : AMap Ex)
    (known : List String) : ∀ (fs : List FixedFunction) (st : PreState), AllNoLoc st.errors →
      AllNoLoc (fs.foldl (preprocessOne fl widths constants assignments known) st).errors
  | [], _, h => h
  | f :: rest, st, h => by
    simp only [List.foldl_cons]
    exact preprocess_fold_noLoc fl widths constants assignments known rest _
      (preprocessOne_noLoc fl widths constants assignments known st f h)

theorem noLoc_wl (ss : List SStmt) (d : Diag) (h : NoLoc d) : WL ss (DiagSp.ofDiag d) := by
  obtain ⟨k, ns⟩ := d
  unfold NoLoc at h
  simp only at h
  rcases h with rfl | rfl | rfl <;> trivial

/-! ### step 5: the loop over the sorted names -/

theorem targets_expr (ss : List SStmt) (n : String) (sp : Span) (x : PEx) (h : (n, sp, x) ∈ targetsOf ss) : x ∈ exprsOf ss := by
  obtain ⟨st, hst, hp⟩ := List.mem_flatMap.mp h
  cases st with
  | assigns as =>
    obtain ⟨a, ha, hp2⟩ := List.mem_flatMap.mp hp
    obtain ⟨nm, _, he⟩ := List.mem_map.mp hp2
    injection he with _ he2
    injection he2 with _ he3
    subst he3
    exact List.mem_flatMap.mpr ⟨_, hst, List.mem_map.mpr ⟨a, ha, rfl⟩⟩
  | consts ds => simp at hp
  | wires ds => simp at hp
  | bank b => simp at hp

theorem loopStepErrsSp_wl (ss : List SStmt) (fl : Flags) (t1 : Step1Sp) (ht : Tbl ss t1) (widths : AMap Width)
    (constants : AMap WireValue) (byOutput : AMap FixedFunction) (st : LoopState) (name : String) :
    ∀ d ∈ loopStepErrsSp fl t1.assigns widths t1.declSpans t1.assignSpans constants byOutput st name, WL ss d := by
  unfold loopStepErrsSp
  cases hg : AMap.get? t1.assigns name with
  | some x =>
    simp only
    obtain ⟨tsp, htgt⟩ := ht.assigns _ (get?_mem _ _ _ hg)
    have hx : x ∈ exprsOf ss := targets_expr ss _ _ _ htgt
    have he0 : ∀ d ∈ (if (refs x.erase).all st.covered.contains then ([] : List DiagSp) else panicSp), WL ss d := by
      intro d hd
      split at hd
      · cases hd
      · exact panicSp_wl ss d hd
    cases hw : AMap.get? widths name with
    | some w =>
      simp only
      cases hc : checkSp fl (AMap.toCtx widths) (AMap.toEnv constants) x with
      | ok ew =>
        simp only
        refine wl_append ss _ _ he0 ?_
        intro d hd
        cases hcomb : w.combine ew with
        | some w' => rw [hcomb] at hd; cases hd
        | none =>
          rw [hcomb] at hd
          rw [List.mem_singleton.mp hd]
          simp only [WL, PointsAt, DiagSp.erase]
          exact ⟨tsp, x, htgt, rfl⟩
      | error ds =>
        simp only
        exact wl_append ss _ _ he0 (fun d hd => CkPt.wl ss x hx d (checkSp_points _ _ _ x ds hc d hd))
    | none =>
      simp only
      refine wl_append ss _ _ he0 ?_
      intro d hd
      rw [List.mem_singleton.mp hd]
      simp only [WL, PointsAt, DiagSp.erase]
      exact ht.asg _ (spanOf_mem _ _ (ht.assignsSp _ (contains_of_get? _ _ _ hg)))
  | none =>
    simp only
    cases hb : AMap.get? byOutput name with
    | some f =>
      simp only
      intro d hd
      split at hd
      · cases hd
      · exact panicSp_wl ss d hd
    | none =>
      simp only
      cases hd2 : AMap.get? t1.declSpans name with
      | some sp =>
        intro d hd
        rw [List.mem_singleton.mp hd]
        simp only [WL, PointsAt, DiagSp.erase]
        exact ht.decl _ (get?_mem _ _ _ hd2)
      | none => intro d hd; cases hd

theorem actionsLoopSp_wl (ss : List SStmt) (fl : Flags) (t1 : Step1Sp) (ht : Tbl ss t1) (widths : AMap Width)
    (constants : AMap WireValue) (byOutput : AMap FixedFunction) : ∀ (names : List String) (st : LoopState × List DiagSp),
    (∀ d ∈ st.2, WL ss d) → ∀ d ∈ (actionsLoopSp fl t1 widths constants byOutput names st).2, WL ss d
  | [], _, h => h
  | name :: rest, st, h => by
    unfold actionsLoopSp
    simp only [List.foldl_cons]
    have := actionsLoopSp_wl ss fl t1 ht widths constants byOutput rest
      (loopStep fl t1.s.assignments widths t1.s.declared constants byOutput st.1 name,
       st.2 ++ loopStepErrsSp fl t1.assigns widths t1.declSpans t1.assignSpans constants byOutput st.1 name)
      (wl_append ss _ _ h (loopStepErrsSp_wl ss fl t1 ht widths constants byOutput st.1 name))
    unfold actionsLoopSp at this
    exact this

/-- **stage 4 (step 5)**: the diagnostics of `assignmentsToActionsSp` -/
theorem assignmentsToActionsSp_wl (ss : List SStmt) (fl : Flags) (o : Orders) (t1 : Step1Sp) (ht : Tbl ss t1)
    (widths : AMap Width) (known : List String) (fixed : List FixedFunction) (constants : AMap WireValue) (ds : List DiagSp)
    (h : assignmentsToActionsSp fl o t1 widths known fixed constants = .error ds) : ∀ d ∈ ds, WL ss d := by
  unfold assignmentsToActionsSp at h
  simp only [] at h
  have hpre := preprocess_fold_noLoc fl widths constants t1.s.assignments known fixed
    { graph := assignGraph t1.s.assignments known } (fun d hd => by cases hd)
  generalize fixed.foldl (preprocessOne fl widths constants t1.s.assignments known) { graph := assignGraph t1.s.assignments known } = pre at h hpre
  by_cases hp : (!pre.errors.isEmpty) = true
  · rw [if_pos hp] at h
    cases h
    intro d hd
    obtain ⟨d0, hd0, rfl⟩ := List.mem_map.mp hd
    exact noLoc_wl ss d0 (hpre d0 hd0)
  · rw [if_neg hp] at h
    cases hs : pre.graph.sort o with
    | ok sorted =>
      rw [hs] at h
      simp only at h
      have hloop := actionsLoopSp_wl ss fl t1 ht widths constants pre.info.byOutput sorted ({ covered := known }, [])
        (fun d hd => by cases hd)
      generalize actionsLoopSp fl t1 widths constants pre.info.byOutput sorted ({ covered := known }, []) = a at h hloop
      obtain ⟨a1, a2⟩ := a
      simp only at h hloop
      split at h
      · cases h
      · cases h
        refine wl_append ss _ _ hloop ?_
        intro d hd
        obtain ⟨n, _, rfl⟩ := List.mem_map.mp hd
        trivial
    | cycle c =>
      rw [hs] at h
      cases h
      intro d hd
      rw [List.mem_singleton.mp hd]
      trivial
    | panic =>
      rw [hs] at h
      cases h
      exact panicSp_wl ss

end Parser
