import Hcl.Theorems.C14DiagAll
import Hcl.Theorems.C14Render

/-!
# C14, end to end — from the user's text to the excerpt printed for each located diagnostic

One statement that chains
  text of the user  →  spans of the statements (`parseProgramSp`)  →  spans of the diagnostics (`Program.newSp`)
  →  what `show_region` prints for each of them (`Io.showRegion` on the file `main` builds).

The user's text is a list of characters `cs` (a Rust `String` / a Lean `String`, see `encodeBytes_toList`); the lexer
sees `preambleChars ++ cs` and counts positions in UTF-8 bytes (`sizeOf'`); `io.rs` sees the bytes
`Generated.preambleBytes ++ encodeBytes cs`.  `encodeBytes` is the UTF-8 encoding of core Lean (`String.utf8EncodeChar`),
as natural numbers; `length_encodeBytes` is the bridge between the two ways of counting.
-/

open Parser Lexer Spec

namespace C14E2E

/-- the UTF-8 bytes of a list of characters (core's `String.utf8EncodeChar`), as `Bytes` -/
def encodeBytes (cs : List Char) : Bytes := (cs.flatMap String.utf8EncodeChar).map UInt8.toNat

theorem encodeBytes_nil : encodeBytes [] = [] := rfl

theorem encodeBytes_append (a b : List Char) : encodeBytes (a ++ b) = encodeBytes a ++ encodeBytes b := by
  simp [encodeBytes, List.flatMap_append]

/-- **bytes and characters count alike**: the length of the encoding is the length the lexer counts -/
theorem length_encodeBytes (cs : List Char) : (encodeBytes cs).length = sizeOf' cs := by
  induction cs with
  | nil => rfl
  | cons c cs ih =>
    have h : encodeBytes (c :: cs) = encodeBytes [c] ++ encodeBytes cs := encodeBytes_append [c] cs
    rw [h, List.length_append, ih]
    simp [encodeBytes, sizeOf', size, String.length_utf8EncodeChar]

/-- `encodeBytes` of the characters of a `String` is the byte string `String.toUTF8` gives -/
theorem encodeBytes_toList (t : String) : encodeBytes t.toList = t.toUTF8.data.toList.map UInt8.toNat := by
  have h : t.toList.utf8Encode = t.toByteArray := String.utf8Encode_toList
  show _ = t.toByteArray.data.toList.map UInt8.toNat
  rw [← h]
  unfold List.utf8Encode encodeBytes
  rw [List.toList_data_toByteArray]

/-! ### the encoding is valid UTF-8 (so the hypothesis `Yo.validUtf8 U` of `C14_region_y86` is discharged) -/

theorem v1 (b0 : Nat) (rest : Bytes) (h : b0 < 0x80) : Yo.validUtf8 (b0 :: rest) = Yo.validUtf8 rest := by
  conv => lhs; unfold Yo.validUtf8
  simp only [h, if_true]

theorem v2 (b0 b1 : Nat) (rest : Bytes) (h0 : 0xC2 ≤ b0) (h0' : b0 ≤ 0xDF) (h1 : 0x80 ≤ b1) (h1' : b1 ≤ 0xBF) :
    Yo.validUtf8 (b0 :: b1 :: rest) = Yo.validUtf8 rest := by
  have n0 : ¬ b0 < 0x80 := by omega
  rw [Yo.validUtf8]; simp [Yo.cont, n0, h0, h0', h1, h1']

theorem v3 (b0 b1 b2 : Nat) (rest : Bytes) (h0 : 0xE0 ≤ b0) (h0' : b0 ≤ 0xEF)
    (h1 : 0x80 ≤ b1) (h1' : b1 ≤ 0xBF) (hE0 : b0 = 0xE0 → 0xA0 ≤ b1) (hED : b0 = 0xED → b1 ≤ 0x9F)
    (h2 : 0x80 ≤ b2) (h2' : b2 ≤ 0xBF) :
    Yo.validUtf8 (b0 :: b1 :: b2 :: rest) = Yo.validUtf8 rest := by
  have n0 : ¬ b0 < 0x80 := by omega
  have n1 : ¬ b0 ≤ 0xDF := by omega
  rw [Yo.validUtf8]
  by_cases e0 : b0 = 0xE0
  · have := hE0 e0
    subst e0; simp [Yo.cont, h1', h2, h2', this]
  · by_cases eD : b0 = 0xED
    · have := hED eD
      subst eD; simp [Yo.cont, h1, h2, h2', this]
    · simp [Yo.cont, n0, n1, h0, h0', h1, h1', h2, h2', e0, eD]

theorem v4 (b0 b1 b2 b3 : Nat) (rest : Bytes) (h0 : 0xF0 ≤ b0) (h0' : b0 ≤ 0xF4)
    (h1 : 0x80 ≤ b1) (h1' : b1 ≤ 0xBF) (hF0 : b0 = 0xF0 → 0x90 ≤ b1) (hF4 : b0 = 0xF4 → b1 ≤ 0x8F)
    (h2 : 0x80 ≤ b2) (h2' : b2 ≤ 0xBF) (h3 : 0x80 ≤ b3) (h3' : b3 ≤ 0xBF) :
    Yo.validUtf8 (b0 :: b1 :: b2 :: b3 :: rest) = Yo.validUtf8 rest := by
  have n0 : ¬ b0 < 0x80 := by omega
  have n1 : ¬ b0 ≤ 0xDF := by omega
  have n2 : ¬ b0 ≤ 0xEF := by omega
  rw [Yo.validUtf8]
  by_cases e0 : b0 = 0xF0
  · have := hF0 e0
    subst e0; simp [Yo.cont, h1', h2, h2', h3, h3', this]
  · by_cases e4 : b0 = 0xF4
    · have := hF4 e4
      subst e4; simp [Yo.cont, h1, h2, h2', h3, h3', this]
    · simp [Yo.cont, n0, n1, n2, h0, h0', h1, h1', h2, h2', h3, h3', e0, e4]

theorem valid_char (c : Char) (rest : Bytes) :
    Yo.validUtf8 ((String.utf8EncodeChar c).map UInt8.toNat ++ rest) = Yo.validUtf8 rest := by
  have hv : Nat.isValidChar c.val.toNat := c.valid
  unfold Nat.isValidChar at hv
  unfold String.utf8EncodeChar
  generalize c.val.toNat = v at hv
  simp only
  by_cases h1 : v ≤ 0x7f
  · rw [if_pos h1]
    simp only [List.map, List.cons_append, List.nil_append, UInt8.toNat_ofNat']
    exact v1 _ _ (by omega)
  · rw [if_neg h1]
    by_cases h2 : v ≤ 0x7ff
    · rw [if_pos h2]
      simp only [List.map, List.cons_append, List.nil_append, UInt8.toNat_ofNat']
      exact v2 _ _ _ (by omega) (by omega) (by omega) (by omega)
    · rw [if_neg h2]
      by_cases h3 : v ≤ 0xffff
      · rw [if_pos h3]
        simp only [List.map, List.cons_append, List.nil_append, UInt8.toNat_ofNat']
        exact v3 _ _ _ _ (by omega) (by omega) (by omega) (by omega) (by omega) (by omega) (by omega) (by omega)
      · rw [if_neg h3]
        simp only [List.map, List.cons_append, List.nil_append, UInt8.toNat_ofNat']
        exact v4 _ _ _ _ _ (by omega) (by omega) (by omega) (by omega) (by omega) (by omega) (by omega) (by omega) (by omega) (by omega)

/-- **the encoding of any list of characters is valid UTF-8** for the validator of the model of `io.rs` -/
theorem validUtf8_encodeBytes (cs : List Char) : Yo.validUtf8 (encodeBytes cs) = true := by
  induction cs with
  | nil => rfl
  | cons c cs ih =>
    have h : encodeBytes (c :: cs) = (String.utf8EncodeChar c).map UInt8.toNat ++ encodeBytes cs := by
      simp [encodeBytes]
    rw [h, valid_char, ih]

/-- the characters of the preamble, as the driver hands them to the parser -/
def preambleChars : List Char := Generated.preambleBytes.map Char.ofNat

theorem asciiEnc : ∀ b : Fin 128, (String.utf8EncodeChar (Char.ofNat b.val)).map UInt8.toNat = [b.val] := by
  decide +kernel

theorem preamble_ascii : Generated.preambleBytes.all (· < 128) = true := by decide +kernel

theorem encodeBytes_ascii (bs : List Nat) (h : bs.all (· < 128) = true) : encodeBytes (bs.map Char.ofNat) = bs := by
  induction bs with
  | nil => rfl
  | cons b bs ih =>
    simp only [List.all_cons, Bool.and_eq_true, decide_eq_true_eq] at h
    have h1 : encodeBytes ((b :: bs).map Char.ofNat) = encodeBytes [Char.ofNat b] ++ encodeBytes (bs.map Char.ofNat) := by
      rw [List.map_cons]; exact encodeBytes_append [Char.ofNat b] _
    rw [h1, ih h.2]
    have h2 : encodeBytes [Char.ofNat b] = [b] := by
      have := asciiEnc ⟨b, h.1⟩
      simpa [encodeBytes] using this
    rw [h2]; rfl

/-- the preamble is ASCII: its characters encode to the bytes `io.rs` sees -/
theorem encodeBytes_preambleChars : encodeBytes preambleChars = Generated.preambleBytes :=
  encodeBytes_ascii _ preamble_ascii

/-- so the lexer counts the preamble as long as `io.rs` does -/
theorem sizeOf'_preambleChars : sizeOf' preambleChars = Generated.preambleBytes.length := by
  rw [← length_encodeBytes, encodeBytes_preambleChars]

theorem sizeOf'_append (a b : List Char) : sizeOf' (a ++ b) = sizeOf' a + sizeOf' b := by
  rw [← length_encodeBytes, encodeBytes_append, List.length_append, length_encodeBytes, length_encodeBytes]

/-- the whole text the lexer reads is, in bytes, the contents of the file `main` builds -/
theorem encodeBytes_text (cs : List Char) :
    encodeBytes (preambleChars ++ cs) = Generated.preambleBytes ++ encodeBytes cs := by
  rw [encodeBytes_append, encodeBytes_preambleChars]

theorem sizeOf'_text (cs : List Char) :
    sizeOf' (preambleChars ++ cs) = Generated.preambleBytes.length + (encodeBytes cs).length := by
  rw [sizeOf'_append, sizeOf'_preambleChars, length_encodeBytes]

/-- the span `[s, e)` of the user's text does not run past the end of the line `s` is on -/
def FitsLine (U : Bytes) (s e : Nat) : Prop := Spec.column U s + (e - s) ≤ (Spec.lineText U s).length

/-- for a non-empty range of the text that fits its line, `Spec.region` says what is printed -/
theorem region_isSome (name U : Bytes) (s e : Nat) (hse : s < e) (he : e ≤ U.length) (hfit : FitsLine U s e) :
    ∃ r, Spec.region name U s e = some r := by
  have hne : Spec.lineText U s ≠ [] := by
    intro h0
    unfold FitsLine at hfit
    rw [h0] at hfit
    simp only [List.length_nil] at hfit
    omega
  unfold Spec.region
  simp only
  rw [if_pos ⟨Nat.le_of_lt hse, he, hfit, hne⟩]
  exact ⟨_, rfl⟩

/-- the text holds the bytes `w` at byte offset `s` -/
def BytesAt (U : Bytes) (w : Bytes) (s : Nat) : Prop := (U.drop s).take w.length = w

/-- a name spelled in the text of characters is spelled, in bytes, in the user's file (when it is after the preamble) -/
theorem bytesAt_of_spelledAt (cs : List Char) (n : String) (start : Nat)
    (h : SpelledAt (preambleChars ++ cs) n start) (hpre : Generated.preambleBytes.length ≤ start) :
    BytesAt (encodeBytes cs) (encodeBytes n.toList) (start - Generated.preambleBytes.length) := by
  obtain ⟨pre, post, htext, hlen⟩ := h
  have hb : Generated.preambleBytes ++ encodeBytes cs = encodeBytes pre ++ (encodeBytes n.toList ++ encodeBytes post) := by
    rw [← encodeBytes_text, htext, encodeBytes_append, encodeBytes_append, List.append_assoc]
  have hpl : (encodeBytes pre).length = start := by rw [length_encodeBytes, hlen]
  have hd : (Generated.preambleBytes ++ encodeBytes cs).drop start = encodeBytes n.toList ++ encodeBytes post := by
    rw [hb, ← hpl, List.drop_left]
  have hd2 : (Generated.preambleBytes ++ encodeBytes cs).drop start =
      (encodeBytes cs).drop (start - Generated.preambleBytes.length) := by
    rw [List.drop_append]
    rw [List.drop_eq_nil_of_le hpre, List.nil_append]
  unfold BytesAt
  rw [← hd2, hd, List.take_left]

end C14E2E

open C14E2E

/-- **C14, end to end.**  The user's text is `cs` (any list of characters; `U = encodeBytes cs` is its UTF-8 encoding,
    which the validator of `io.rs` accepts: `validUtf8_encodeBytes`); the parser reads the preamble followed by `cs`; `Program.newSp` rejects the statements with the
    diagnostics `ds`.  Then every diagnostic `d` carries the spans `Spec.PointsAt` prescribes for its kind and names, and
    for every span `sp` it carries:

    1. `sp` is a non-empty byte range of the file `main` builds (preamble, then `U`);
    2. if `sp` starts in the user's text, then whatever `Spec.region` says about the span -- translated to offsets in
       the user's file -- is exactly what `show_region` prints for `sp`: the user's file name, the line counted in the
       user's file, the text of that line, carets under exactly `sp`;
    3. and `Spec.region` does say something whenever `sp` does not run past the end of its line (`FitsLine`). -/
theorem C14_end_to_end (cs : List Char) (name : Bytes)
    (cls : CharCls) (ss : List SStmt) (hp : parseProgramSp cls (preambleChars ++ cs) = some ss)
    (fl : Flags) (ccls : CharClass) (o : Orders) (fixed : List FixedFunction) (ds : List DiagSp)
    (h : Program.newSp fl ccls o fixed ss = .error ds) :
    ∀ d ∈ ds, Spec.PointsAt ss d.erase d.spans ∧ ∀ sp ∈ d.spans,
      (sp.1 < sp.2 ∧ sp.2 ≤ Generated.preambleBytes.length + (encodeBytes cs).length) ∧
      (Generated.preambleBytes.length ≤ sp.1 →
        (∀ r, Spec.region name (encodeBytes cs) (sp.1 - Generated.preambleBytes.length)
                (sp.2 - Generated.preambleBytes.length) = some r →
              Io.showRegion (y86File (encodeBytes cs) name) sp.1 sp.2 = .ok r) ∧
        (FitsLine (encodeBytes cs) (sp.1 - Generated.preambleBytes.length) (sp.2 - Generated.preambleBytes.length) →
          ∃ r, Spec.region name (encodeBytes cs) (sp.1 - Generated.preambleBytes.length)
                (sp.2 - Generated.preambleBytes.length) = some r ∧
              Io.showRegion (y86File (encodeBytes cs) name) sp.1 sp.2 = .ok r)) := by
  intro d hd
  refine ⟨C14_diag_points_at fl ccls o fixed ss ds h d hd, ?_⟩
  intro sp hsp
  have h1 := C14_diag_spans_in_text cls _ ss hp fl ccls o fixed ds h d hd sp hsp
  rw [sizeOf'_text] at h1
  refine ⟨h1, ?_⟩
  intro hpre
  have hreg : ∀ r, Spec.region name (encodeBytes cs) (sp.1 - Generated.preambleBytes.length)
                (sp.2 - Generated.preambleBytes.length) = some r →
              Io.showRegion (y86File (encodeBytes cs) name) sp.1 sp.2 = .ok r := by
    intro r hr
    have := C14_region_y86 (encodeBytes cs) name _ _ r (validUtf8_encodeBytes cs) hr
    have e1 : Generated.preambleBytes.length + (sp.1 - Generated.preambleBytes.length) = sp.1 := by omega
    have e2 : Generated.preambleBytes.length + (sp.2 - Generated.preambleBytes.length) = sp.2 := by omega
    rw [e1, e2] at this
    exact this
  refine ⟨hreg, ?_⟩
  intro hfit
  obtain ⟨r, hr⟩ := region_isSome name (encodeBytes cs) _ _ (by omega) (by omega) hfit
  exact ⟨r, hr, hreg r hr⟩

/-- **C14, end to end, the names.**  In the same situation: a span that `Spec.PointsAt` describes as the declaration of
    the name `n` or as an assignment target spelled `n` (the kinds `UnsetWire`, `RedeclaredWire`, `RedeclaredBuiltinWire`,
    `DoubleAssignedWire`, `DoubleAssignedFixedOutWire`, `AssignedConstant`, `UndeclaredWireAssigned`) and that starts in the
    user's text starts, in the bytes of the user's file, with the UTF-8 bytes of `n`; and for a target the span -- the
    bytes over the carets -- is exactly those bytes. -/
theorem C14_end_to_end_names (cs : List Char) (cls : CharCls) (ss : List SStmt)
    (hp : parseProgramSp cls (preambleChars ++ cs) = some ss) (n : String) (sp : Span)
    (hpre : Generated.preambleBytes.length ≤ sp.1) :
    ((n, sp) ∈ declsOf ss → BytesAt (encodeBytes cs) (encodeBytes n.toList) (sp.1 - Generated.preambleBytes.length)) ∧
    (TargetOf ss n sp →
      ((encodeBytes cs).drop (sp.1 - Generated.preambleBytes.length)).take (sp.2 - sp.1) = encodeBytes n.toList) := by
  have hn := C14_diag_names_in_text cls _ ss hp n sp
  refine ⟨fun hd => bytesAt_of_spelledAt cs n sp.1 (hn.1 hd) hpre, ?_⟩
  intro ht
  obtain ⟨hs, he⟩ := hn.2 ht
  have := bytesAt_of_spelledAt cs n sp.1 hs hpre
  unfold BytesAt at this
  have hl : sp.2 - sp.1 = (encodeBytes n.toList).length := by rw [length_encodeBytes]; omega
  rw [hl]; exact this

/-- the same for a Lean / Rust `String`: the user's file holds `t.toUTF8`, the parser reads `t.toList` after the preamble -/
theorem C14_end_to_end_string (t : String) (name : Bytes)
    (cls : CharCls) (ss : List SStmt) (hp : parseProgramSp cls (preambleChars ++ t.toList) = some ss)
    (fl : Flags) (ccls : CharClass) (o : Orders) (fixed : List FixedFunction) (ds : List DiagSp)
    (h : Program.newSp fl ccls o fixed ss = .error ds) :
    let U : Bytes := t.toUTF8.data.toList.map UInt8.toNat
    ∀ d ∈ ds, Spec.PointsAt ss d.erase d.spans ∧ ∀ sp ∈ d.spans,
      (sp.1 < sp.2 ∧ sp.2 ≤ Generated.preambleBytes.length + U.length) ∧
      (Generated.preambleBytes.length ≤ sp.1 →
        (∀ r, Spec.region name U (sp.1 - Generated.preambleBytes.length) (sp.2 - Generated.preambleBytes.length) = some r →
              Io.showRegion (y86File U name) sp.1 sp.2 = .ok r) ∧
        (FitsLine U (sp.1 - Generated.preambleBytes.length) (sp.2 - Generated.preambleBytes.length) →
          ∃ r, Spec.region name U (sp.1 - Generated.preambleBytes.length) (sp.2 - Generated.preambleBytes.length) = some r ∧
              Io.showRegion (y86File U name) sp.1 sp.2 = .ok r)) := by
  intro U
  have hE : encodeBytes t.toList = U := encodeBytes_toList t
  have := C14_end_to_end t.toList name cls ss hp fl ccls o fixed ds h
  rw [hE] at this
  exact this

/-- the decoding the driver uses: when `String.fromUTF8?` decodes the bytes `U` of the user's file to `t`, the characters
    of `t` encode back to `U` -/
theorem C14E2E.encodeBytes_of_fromUTF8? (U : Bytes) (hb : ∀ b ∈ U, b < 256) (t : String)
    (h : String.fromUTF8? (ByteArray.mk (U.map UInt8.ofNat).toArray) = some t) : encodeBytes t.toList = U := by
  have ht : t.toUTF8 = ByteArray.mk (U.map UInt8.ofNat).toArray := by
    unfold String.fromUTF8? at h
    split at h
    · simp only [Option.some.injEq] at h
      rw [← h]; rfl
    · simp at h
  rw [encodeBytes_toList, ht]
  simp only [List.map_map]
  have : ∀ l : List Nat, (∀ b ∈ l, b < 256) → l.map (UInt8.toNat ∘ UInt8.ofNat) = l := by
    intro l hl
    induction l with
    | nil => rfl
    | cons b l ih =>
      have hb1 : b < 256 := hl b (List.mem_cons_self ..)
      have hr := ih (fun x hx => hl x (List.mem_cons_of_mem _ hx))
      simp only [List.map_cons, hr, Function.comp, UInt8.toNat_ofNat']
      congr 1
      omega
  exact this U hb

/-- **C14, end to end, from the bytes of the user's file**: `U` is any byte string that decodes (`String.fromUTF8?`, as in
    the driver and as Rust's `String::from_utf8`) to a text `t`; the parser reads the preamble followed by `t` -/
theorem C14_end_to_end_bytes (U : Bytes) (hb : ∀ b ∈ U, b < 256) (t : String)
    (ht : String.fromUTF8? (ByteArray.mk (U.map UInt8.ofNat).toArray) = some t) (name : Bytes)
    (cls : CharCls) (ss : List SStmt) (hp : parseProgramSp cls (preambleChars ++ t.toList) = some ss)
    (fl : Flags) (ccls : CharClass) (o : Orders) (fixed : List FixedFunction) (ds : List DiagSp)
    (h : Program.newSp fl ccls o fixed ss = .error ds) :
    ∀ d ∈ ds, Spec.PointsAt ss d.erase d.spans ∧ ∀ sp ∈ d.spans,
      (sp.1 < sp.2 ∧ sp.2 ≤ Generated.preambleBytes.length + U.length) ∧
      (Generated.preambleBytes.length ≤ sp.1 →
        (∀ r, Spec.region name U (sp.1 - Generated.preambleBytes.length) (sp.2 - Generated.preambleBytes.length) = some r →
              Io.showRegion (y86File U name) sp.1 sp.2 = .ok r) ∧
        (FitsLine U (sp.1 - Generated.preambleBytes.length) (sp.2 - Generated.preambleBytes.length) →
          ∃ r, Spec.region name U (sp.1 - Generated.preambleBytes.length) (sp.2 - Generated.preambleBytes.length) = some r ∧
              Io.showRegion (y86File U name) sp.1 sp.2 = .ok r)) := by
  have hE : encodeBytes t.toList = U := encodeBytes_of_fromUTF8? U hb t ht
  have := C14_end_to_end t.toList name cls ss hp fl ccls o fixed ds h
  rw [hE] at this
  exact this

#print axioms C14E2E.length_encodeBytes
#print axioms C14E2E.encodeBytes_toList
#print axioms C14E2E.validUtf8_encodeBytes
#print axioms C14E2E.encodeBytes_preambleChars
#print axioms C14_end_to_end
#print axioms C14_end_to_end_names
#print axioms C14_end_to_end_string
#print axioms C14E2E.encodeBytes_of_fromUTF8?
#print axioms C14_end_to_end_bytes
