import Hcl.Model.Program
open Rust

/-!
# C09 — every wire has exactly one driver, or the program is rejected

Theorems about the model of `Program::new` (first checking stage).  The complete fault list is
`Spec.faults` (Hcl/Spec/Accept.lean); agreement of the real code with it — accept/reject and the
name in the diagnostic, for every fault class at every kind of name — is established differentially.
-/

def targetsOf : List Stmt → List String
  | [] => []
  | .assigns as :: rest => as.flatMap (·.names) ++ targetsOf rest
  | _ :: rest => targetsOf rest

def constNamesOf : List Stmt → List String
  | [] => []
  | .consts ds :: rest => ds.map (·.name) ++ constNamesOf rest
  | _ :: rest => constNamesOf rest

theorem foldl_errors_mono {β : Type} (f : Step1 → β → Step1) (hf : ∀ s x, ∃ more, (f s x).errors = s.errors ++ more) :
    ∀ (l : List β) (s : Step1), ∃ more, (l.foldl f s).errors = s.errors ++ more
  | [], s => ⟨[], by simp⟩
  | x :: rest, s => by
    obtain ⟨m1, h1⟩ := hf s x
    obtain ⟨m2, h2⟩ := foldl_errors_mono f hf rest (f s x)
    exact ⟨m1 ++ m2, by simp only [List.foldl_cons]; rw [h2, h1, List.append_assoc]⟩

theorem checkDoubleDeclare_mono (fn : List String) (s : Step1) (n : String) :
    ∃ more, (checkDoubleDeclare fn s n).errors = s.errors ++ more := ⟨_, rfl⟩

/-- processing one statement never removes an error already recorded -/
theorem step1Stmt_errors_mono (fn fo : List String) (s : Step1) (st : Stmt) :
    ∃ more, (step1Stmt fn fo s st).errors = s.errors ++ more := by
  cases st with
  | consts ds =>
    exact foldl_errors_mono (step1Const fn) (fun s d => by
      obtain ⟨m, hm⟩ := checkDoubleDeclare_mono fn s d.name
      exact ⟨m, by simp only [step1Const]; exact hm⟩) ds s
  | wires ds =>
    exact foldl_errors_mono (step1Wire fn) (fun s d => by
      obtain ⟨m, hm⟩ := checkDoubleDeclare_mono fn s d.name
      exact ⟨m, by simp only [step1Wire]; exact hm⟩) ds s
  | assigns as =>
    exact foldl_errors_mono (step1Assign fo) (fun s a =>
      foldl_errors_mono (step1Name fo a.value) (fun s n => ⟨_, rfl⟩) a.names s) as s
  | bank b => exact ⟨[], by simp [step1Stmt]⟩

theorem step1_errors_mono (fn fo : List String) (stmts : List Stmt) (s : Step1) :
    ∃ more, (stmts.foldl (step1Stmt fn fo) s).errors = s.errors ++ more :=
  foldl_errors_mono (step1Stmt fn fo) (step1Stmt_errors_mono fn fo) stmts s

/-- assigning a name a second time records a fault naming it -/
theorem step1Name_double (fo : List String) (value : Ex) (s : Step1) (name : String) (h : s.assigned.contains name = true) :
    (⟨.DoubleAssignedWire, [name]⟩ : Diag) ∈ (step1Name fo value s name).errors := by
  have h' : name ∈ s.assigned := by simpa using h
  simp [step1Name, h']

/-- **C09, first stage.** Whenever the first checking stage records any fault (a name declared twice,
    assigned twice, an assignment to a built-in output or to a constant, a constant depending on a
    wire or on an undeclared name), the program is rejected — for every iteration order. -/
theorem C09_stage1_rejects (fl : Flags) (cls : CharClass) (o : Orders) (fixed : List FixedFunction) (stmts : List Stmt)
    (fixedNames fixedOut : List String)
    (hfn : fixedNames = dedupS (fixed.flatMap fun f => f.inWires.map (·.1) ++ (match f.outWire with | some (n, _) => [n] | none => [])))
    (hfo : fixedOut = fixed.filterMap fun f => f.outWire.map (·.1))
    (herr : (stmts.foldl (step1Stmt fixedNames fixedOut) (step1Init fixed)).errors ≠ []) :
    ∃ ds, Program.new fl cls o fixed stmts = .error ds := by
  subst hfn; subst hfo
  unfold Program.new
  simp only
  split
  · exact ⟨_, rfl⟩
  · rename_i h
    exfalso
    apply h
    cases he : (stmts.foldl (step1Stmt _ _) (step1Init fixed)).errors with
    | nil => exact absurd he herr
    | cons d ds => simp [he]
