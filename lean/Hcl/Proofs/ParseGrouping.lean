import Hcl.Model.Parser
import Hcl.Spec.Grammar
open Parser Lexer

/-! The parser model groups unparenthesised operator sequences as the documented precedence says:
    checked for every pair and every triple of binary operators by kernel evaluation. -/

namespace Grouping

/-- the shape of a parse tree over wires: a leaf (identified by where it starts) or a binary operation -/
inductive Sk where
  | leaf (start : Nat)
  | bin (op : BinOp) (l r : Sk)
  | other
  deriving DecidableEq, Repr

def sk : PEx → Sk
  | .wire s _ _ => .leaf s
  | .bin _ _ op l r => .bin op (sk l) (sk r)
  | _ => .other

/-- the documented level of each binary operator: its index in `Spec.precTable` (0 = tightest) and whether the level chains -/
def level : BinOp → Nat × Bool
  | .mul | .div => (0, true)
  | .add | .sub => (1, true)
  | .shl | .shr => (2, true)
  | .and => (3, true)
  | .xor => (4, true)
  | .or => (5, true)
  | .eq | .ne | .le | .ge | .lt | .gt => (7, false)
  | .land => (8, true)
  | .lor => (9, true)

def symbol : BinOp → String
  | .mul => "*" | .div => "/" | .add => "+" | .sub => "-" | .shl => "<<" | .shr => ">>" | .and => "&" | .xor => "^" | .or => "|"
  | .eq => "==" | .ne => "!=" | .le => "<=" | .ge => ">=" | .lt => "<" | .gt => ">" | .land => "&&" | .lor => "||"

def allBinOps : List BinOp := [.add, .sub, .mul, .div, .or, .xor, .and, .eq, .ne, .le, .ge, .lt, .gt, .land, .lor, .shl, .shr]

/-- `level` is the position of the operator's symbol in the documented table -/
theorem level_documented : allBinOps.all (fun op =>
    match Spec.precTable[(level op).1]? with
    | some (syms, chains) => syms.contains (symbol op) && chains == (level op).2
    | none => false) = true := by decide

def root : Sk → Option BinOp
  | .bin op _ _ => some op
  | _ => none

/-- a tree is grouped as documented when under every operator the left operand's operator binds tighter, or equally on a
    level that chains (left to right), and the right operand's operator binds strictly tighter -/
def wellGrouped : Sk → Bool
  | .leaf _ => true
  | .other => false
  | .bin op l r =>
    wellGrouped l && wellGrouped r &&
    (match root l with
     | none => true
     | some ol => (level ol).1 < (level op).1 || ((level ol).1 == (level op).1 && (level op).2)) &&
    (match root r with
     | none => true
     | some or => (level or).1 < (level op).1)

/-- all binary trees whose leaves and operators, read left to right, are the given ones (`ops.length + 1 = leaves.length`) -/
def allTrees : Nat → List Nat → List BinOp → List Sk
  | 0, _, _ => []
  | _ + 1, [x], [] => [.leaf x]
  | fuel + 1, leaves, ops =>
    (List.range ops.length).flatMap fun i =>
      match ops[i]? with
      | none => []
      | some op =>
        (allTrees fuel (leaves.take (i + 1)) (ops.take i)).flatMap fun l =>
          (allTrees fuel (leaves.drop (i + 1)) (ops.drop (i + 1))).map fun r => Sk.bin op l r

def tokOf : BinOp → Tok
  | .mul => .Times | .div => .Divide | .add => .Plus | .sub => .Minus | .shl => .LeftShift | .shr => .RightShift
  | .and => .And | .xor => .Xor | .or => .Or | .eq => .Equal | .ne => .NotEqual | .le => .LessEqual | .ge => .GreaterEqual
  | .lt => .Less | .gt => .Greater | .land => .AndAnd | .lor => .OrOr

/-- the tokens of `x0 op1 x1 op2 x2 ...`: wire `i` starts at offset `4 i` -/
def toksOf : Nat → List BinOp → Toks
  | i, [] => [(4 * i, .Identifier "x", 4 * i + 1)]
  | i, op :: rest => (4 * i, .Identifier "x", 4 * i + 1) :: (4 * i + 2, tokOf op, 4 * i + 3) :: toksOf (i + 1) rest

def parseSk (ts : Toks) : Option Sk :=
  match parseTier (14 * ts.length + 40) 0 ts with
  | some (x, _, _, []) => some (sk x)
  | _ => none

/-- the parser returns the one tree that is grouped as documented, or fails when there is none (two comparisons in a row) -/
def agrees (ops : List BinOp) : Bool :=
  let good := (allTrees (ops.length + 2) ((List.range (ops.length + 1)).map (4 * ·)) ops).filter wellGrouped
  match parseSk (toksOf 0 ops) with
  | some t => good == [t]
  | none => good.isEmpty

theorem pairs_grouped : (allBinOps.all fun o1 => allBinOps.all fun o2 => agrees [o1, o2]) = true := by decide +kernel

theorem triples_grouped :
    (allBinOps.all fun o1 => allBinOps.all fun o2 => allBinOps.all fun o3 => agrees [o1, o2, o3]) = true := by decide +kernel

end Grouping
