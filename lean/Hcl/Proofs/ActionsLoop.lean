import Hcl.Proofs.StepSound
import Hcl.Proofs.GBuild
import Hcl.Proofs.CheckErr

/-! The loop of `assignments_to_actions` over the sorted names: when it ends without errors, the action
    list it built is a valid schedule (`Sched`) and every action is well-typed (`ActionOK`).  The schedule
    property comes from the `assert!(covered.contains(..))` of the real code, which the model turns into
    an `InternalPanic` diagnostic: an accepted program never tripped it. -/

def writesOf (l : List Action) : List String := l.flatMap Action.writes

theorem writesOf_append (l₁ l₂ : List Action) : writesOf (l₁ ++ l₂) = writesOf l₁ ++ writesOf l₂ := by
  simp [writesOf]

theorem sched_mono {avail avail' : List String} (h : ∀ n ∈ avail, n ∈ avail') :
    ∀ l, Sched avail l → Sched avail' l
  | [], _ => trivial
  | a :: rest, hs => ⟨fun n hn => h n (hs.1 n hn),
      sched_mono (fun n hn => by
        rcases List.mem_append.mp hn with h1 | h1
        · exact List.mem_append_left _ (h n h1)
        · exact List.mem_append_right _ h1) rest hs.2⟩

theorem sched_append (avail : List String) : ∀ (l₁ l₂ : List Action),
    Sched avail (l₁ ++ l₂) ↔ Sched avail l₁ ∧ Sched (avail ++ writesOf l₁) l₂
  | [], l₂ => by simp [Sched, writesOf]
  | a :: l₁, l₂ => by
    simp only [List.cons_append, Sched]
    rw [sched_append (avail ++ a.writes) l₁ l₂]
    have : avail ++ a.writes ++ writesOf l₁ = avail ++ writesOf (a :: l₁) := by
      simp [writesOf, List.append_assoc]
    rw [this]
    constructor
    · rintro ⟨h1, h2, h3⟩; exact ⟨⟨h1, h2⟩, h3⟩
    · rintro ⟨⟨h1, h2⟩, h3⟩; exact ⟨h1, h2, h3⟩

/-- what the table of built-in components must satisfy (checked for `y86FixedFunctions` by evaluation) -/
def fixedFnOK (f : FixedFunction) : Bool :=
  f.action.reads.all (fun n => (f.inWires.map (·.1)).contains n) &&
  (f.action.writes == (match f.outWire with | some (n, _) => [n] | none => [])) &&
  (match f.action with
    | .readReg _ out => f.outWire == some (out, 64)
    | .readMem _ _ out bytes _ => f.outWire == some (out, bytes * 8) && decide (bytes * 8 ≤ 128)
    | .assign _ _ _ => false
    | _ => true)

theorem y86Fixed_ok : y86FixedFunctions.all fixedFnOK = true := by decide

theorem fixedFnOK_reads {f : FixedFunction} (h : fixedFnOK f = true) : ∀ n ∈ f.action.reads, n ∈ f.inWires.map (·.1) := by
  unfold fixedFnOK at h
  simp only [Bool.and_eq_true, List.all_eq_true] at h
  intro n hn
  have := h.1.1 n hn
  simpa using this

theorem fixedFnOK_writes {f : FixedFunction} (h : fixedFnOK f = true) :
    f.action.writes = (match f.outWire with | some (n, _) => [n] | none => []) := by
  unfold fixedFnOK at h
  simp only [Bool.and_eq_true] at h
  simpa using h.1.2

/-- what an action produced by the loop is -/
def GoodAction (fl : Flags) (assignments : AMap Ex) (widths : AMap Width) (constants : AMap WireValue)
    (fixedL : List FixedFunction) (a : Action) : Prop :=
  (∃ n e₀ w ew, a = .assign n (fixMux fl widths.toCtx constants.toEnv e₀) w ∧ assignments.get? n = some e₀ ∧
      widths.get? n = some w ∧ check fl widths.toCtx constants.toEnv e₀ = .ok ew) ∨
  (∃ f ∈ fixedL, fixedFnOK f = true ∧ a = f.action)

structure LoopFacts (known : List String) (good : Action → Prop) (st : LoopState) : Prop where
  sched : Sched known st.result
  covered : ∀ n ∈ st.covered, n ∈ known ∨ n ∈ writesOf st.result
  good : ∀ a ∈ st.result, good a

def LoopState.Clean (st : LoopState) : Prop := st.errors = [] ∧ st.seenUndeclared = []

theorem setInsert_ne_nil (s : List String) (k : String) : setInsert s k ≠ [] := by
  unfold setInsert
  split
  · rename_i h
    intro e; rw [e] at h; simp at h
  · simp

section
variable (fl : Flags) (assignments : AMap Ex) (widths : AMap Width) (declared : List String)
  (constants : AMap WireValue) (byOutput : AMap FixedFunction)

theorem loopStep_clean_back (st : LoopState) (name : String)
    (h : (loopStep fl assignments widths declared constants byOutput st name).Clean) : st.Clean := by
  unfold loopStep at h
  unfold LoopState.Clean at h ⊢
  simp only at h
  repeat' split at h
  all_goals simp_all [panicDiag, setInsert_ne_nil]

theorem actionsLoop_clean_back (names : List String) (st : LoopState)
    (h : (actionsLoop fl assignments widths declared constants byOutput names st).Clean) : st.Clean := by
  induction names generalizing st with
  | nil => exact h
  | cons n rest ih =>
    unfold actionsLoop at h
    simp only [List.foldl_cons] at h
    exact loopStep_clean_back fl assignments widths declared constants byOutput st n
      (ih _ (by unfold actionsLoop; exact h))
end

section
variable (fl : Flags) (assignments : AMap Ex) (widths : AMap Width) (declared : List String)
  (constants : AMap WireValue) (byOutput : AMap FixedFunction) (known : List String) (fixedL : List FixedFunction)

theorem mem_writesOf_append_single (l : List Action) (a : Action) (n : String) :
    n ∈ writesOf (l ++ [a]) ↔ n ∈ writesOf l ∨ n ∈ a.writes := by
  simp [writesOf]

theorem loopFacts_push {good : Action → Prop} (st : LoopState) (name : String) (a : Action)
    (hf : LoopFacts known good st) (hreads : ∀ n ∈ a.reads, n ∈ st.covered) (hwrites : name ∈ a.writes) (hgood : good a) :
    LoopFacts known good { st with result := st.result ++ [a], covered := setInsert st.covered name } where
  sched := by
    show Sched known (st.result ++ [a])
    rw [sched_append]
    refine ⟨hf.sched, ?_, trivial⟩
    intro n hn
    rcases hf.covered n (hreads n hn) with h | h
    · exact List.mem_append_left _ h
    · exact List.mem_append_right _ h
  covered := by
    intro n hn
    have hn' : n ∈ setInsert st.covered name := hn
    show n ∈ known ∨ n ∈ writesOf (st.result ++ [a])
    rw [mem_writesOf_append_single]
    rcases (mem_setInsert _ _ _).mp hn' with h | h
    · rcases hf.covered n h with h1 | h1
      · exact Or.inl h1
      · exact Or.inr (Or.inl h1)
    · subst h; exact Or.inr (Or.inr hwrites)
  good := by
    intro b hb
    have hb' : b ∈ st.result ++ [a] := hb
    rcases List.mem_append.mp hb' with h | h
    · exact hf.good b h
    · simp at h; subst h; exact hgood

theorem loopStep_facts (st : LoopState) (name : String)
    (hby : ∀ n f, byOutput.get? n = some f → f ∈ fixedL ∧ fixedFnOK f = true ∧ ∃ w, f.outWire = some (n, w))
    (hclean : (loopStep fl assignments widths declared constants byOutput st name).Clean)
    (hf : LoopFacts known (GoodAction fl assignments widths constants fixedL) st) :
    LoopFacts known (GoodAction fl assignments widths constants fixedL)
        (loopStep fl assignments widths declared constants byOutput st name) ∧
      (∀ n, n ∈ (loopStep fl assignments widths declared constants byOutput st name).covered ↔ n ∈ st.covered ∨ n = name) := by
  have hcov : ∀ n, n ∈ (loopStep fl assignments widths declared constants byOutput st name).covered ↔ n ∈ st.covered ∨ n = name := by
    intro n
    unfold loopStep
    simp only
    repeat' split
    all_goals exact mem_setInsert _ _ _
  refine ⟨?_, hcov⟩
  cases h1 : assignments.get? name with
  | some expr =>
    cases h2 : widths.get? name with
    | none =>
      exfalso
      unfold loopStep LoopState.Clean at hclean
      simp only [h1, h2] at hclean
      split at hclean <;> simp at hclean
    | some w =>
      cases h3 : check fl widths.toCtx constants.toEnv expr with
      | error ds =>
        exfalso
        unfold loopStep LoopState.Clean at hclean
        simp only [h1, h2, h3] at hclean
        have hds : ds ≠ [] := check_err fl _ _ expr ds h3
        split at hclean <;> simp_all
      | ok ew =>
        by_cases h4 : (refs expr).all st.covered.contains = true
        · cases h5 : w.combine ew with
          | none =>
            exfalso
            unfold loopStep LoopState.Clean at hclean
            simp only [h1, h2, h3, h4, h5, if_true] at hclean
            simp at hclean
          | some _ =>
            have : loopStep fl assignments widths declared constants byOutput st name =
                { st with result := st.result ++ [Action.assign name (fixMux fl widths.toCtx constants.toEnv expr) w],
                          covered := setInsert st.covered name } := by
              unfold loopStep
              simp only [h1, h2, h3, h4, h5, if_true]
            rw [this]
            apply loopFacts_push known st name _ hf
            · intro n hn
              simp only [Action.reads, refs_fixMux] at hn
              have := List.all_eq_true.mp h4 n hn
              simpa using this
            · simp [Action.writes]
            · exact Or.inl ⟨name, expr, w, ew, rfl, h1, h2, h3⟩
        · exfalso
          unfold loopStep LoopState.Clean at hclean
          simp only [h1, h2, h3, h4] at hclean
          split at hclean <;> simp_all [panicDiag]
  | none =>
    cases h2 : byOutput.get? name with
    | none =>
      exfalso
      unfold loopStep LoopState.Clean at hclean
      simp only [h1, h2] at hclean
      split at hclean <;> simp_all [setInsert_ne_nil]
    | some f =>
      obtain ⟨hfm, hfok, w, hout⟩ := hby name f h2
      by_cases h4 : (f.inWires.map (·.1)).all st.covered.contains = true
      · have : loopStep fl assignments widths declared constants byOutput st name =
            { st with result := st.result ++ [f.action], covered := setInsert st.covered name } := by
          unfold loopStep
          simp only [h1, h2, h4, if_true]
        rw [this]
        apply loopFacts_push known st name _ hf
        · intro n hn
          have := List.all_eq_true.mp h4 n (fixedFnOK_reads hfok n hn)
          simpa using this
        · rw [fixedFnOK_writes hfok, hout]; simp
        · exact Or.inr ⟨f, hfm, hfok, rfl⟩
      · exfalso
        unfold loopStep LoopState.Clean at hclean
        simp only [h1, h2, h4] at hclean
        simp_all [panicDiag]

/-- the whole loop: if it ends clean, the result is a schedule of good actions covering every processed name -/
theorem actionsLoop_facts (names : List String) (st : LoopState)
    (hby : ∀ n f, byOutput.get? n = some f → f ∈ fixedL ∧ fixedFnOK f = true ∧ ∃ w, f.outWire = some (n, w))
    (hclean : (actionsLoop fl assignments widths declared constants byOutput names st).Clean)
    (hf : LoopFacts known (GoodAction fl assignments widths constants fixedL) st) :
    LoopFacts known (GoodAction fl assignments widths constants fixedL)
        (actionsLoop fl assignments widths declared constants byOutput names st) ∧
      (∀ n, n ∈ (actionsLoop fl assignments widths declared constants byOutput names st).covered ↔ n ∈ st.covered ∨ n ∈ names) := by
  induction names generalizing st with
  | nil => exact ⟨hf, by simp [actionsLoop]⟩
  | cons name rest ih =>
    have hstep : actionsLoop fl assignments widths declared constants byOutput (name :: rest) st =
        actionsLoop fl assignments widths declared constants byOutput rest
          (loopStep fl assignments widths declared constants byOutput st name) := by
      simp [actionsLoop]
    rw [hstep] at hclean ⊢
    have hc1 := actionsLoop_clean_back fl assignments widths declared constants byOutput rest _ hclean
    obtain ⟨hf1, hcov1⟩ := loopStep_facts fl assignments widths declared constants byOutput known fixedL st name hby hc1 hf
    obtain ⟨hf2, hcov2⟩ := ih _ hclean hf1
    refine ⟨hf2, ?_⟩
    intro n
    rw [hcov2, hcov1]
    simp only [List.mem_cons]
    constructor
    · rintro ((h | h) | h)
      · exact Or.inl h
      · exact Or.inr (Or.inl h)
      · exact Or.inr (Or.inr h)
    · rintro (h | h | h)
      · exact Or.inl (Or.inl h)
      · exact Or.inl (Or.inr h)
      · exact Or.inr h
end
