import Hcl.Proofs.SpecFaultsNames
import Hcl.Proofs.SpecFaultsSweep
import Hcl.Proofs.SpecFaultsExpr
open Rust Reorder

/-! # The width table of the specification (`Spec.design stmts`), name by name -/

namespace SF

/-- the state the specification's constant resolution ends in -/
def cst (stmts : List Stmt) : CState := Spec.elabConsts (el stmts).constDefs ((el stmts).constDefs.length + 1) cInit

theorem design_consts (stmts : List Stmt) : (Spec.design stmts).consts = (cst stmts).2 := by
  unfold Spec.design cst el cInit
  simp only

theorem constEnv_eq (stmts : List Stmt) : constEnv stmts = (cst stmts).2.get := by
  unfold constEnv; rw [design_consts]

theorem cst_inv (stmts : List Stmt) : SweepInv (el stmts).constDefs (cst stmts) :=
  elabConsts_inv sw_congr dv_congr _ _

/-- the widths the specification records for the register banks -/
def specBankWidths (banks : List BankDecl) : List (String × Width) :=
  banks.flatMap fun bd => ((sigsOfDecl bd).flatMap fun sg => [(sg.1, sg.2.2), (sg.2.1, sg.2.2)]) ++
    [(stallOf bd, .bits 1), (bubbleOf bd, .bits 1)]

theorem design_widths (stmts : List Stmt) (h2 : ∀ b ∈ (el stmts).banks, TwoChar b) :
    (Spec.design stmts).widths =
      (el stmts).wireWidths ++ specBankWidths (el stmts).banks ++ (cst stmts).1 ++ Spec.builtinWidths := by
  unfold Spec.design cst cInit
  simp only
  congr 2
  congr 1
  unfold specBankWidths
  rw [List.flatMap_map]
  apply flatMap_congr'
  intro b hb
  obtain ⟨i, o, hn⟩ := h2 b hb
  simp only [hn]
  rw [sigsOfDecl_eq b i o hn, stallOf_eq b i o hn, bubbleOf_eq b i o hn]
  simp only [List.flatMap_map]
  rfl

/-! ### lookups in appended tables -/

theorem lookup_none_of_not_key {α : Type} (l : List (String × α)) (n : String) (h : n ∉ l.map (·.1)) : l.lookup n = none := by
  rw [List.lookup_eq_none_iff]
  intro p hp
  simp only [bne_iff_ne, ne_eq]
  intro e
  exact h (List.mem_map.mpr ⟨p, hp, e.symm⟩)

theorem lookup_some_of_key {α : Type} (l : List (String × α)) (n : String) (h : n ∈ l.map (·.1)) : ∃ v, l.lookup n = some v := by
  cases hl : l.lookup n with
  | some v => exact ⟨v, rfl⟩
  | none =>
    exfalso
    rw [List.lookup_eq_none_iff] at hl
    obtain ⟨p, hp, e⟩ := List.mem_map.mp h
    have := hl p hp
    simp [e] at this

theorem lookup_append_left {α : Type} (l₁ l₂ : List (String × α)) (n : String) (h : n ∈ l₁.map (·.1)) :
    (l₁ ++ l₂).lookup n = l₁.lookup n := by
  obtain ⟨v, hv⟩ := lookup_some_of_key l₁ n h
  rw [List.lookup_append, hv]; rfl

theorem lookup_append_right {α : Type} (l₁ l₂ : List (String × α)) (n : String) (h : n ∉ l₁.map (·.1)) :
    (l₁ ++ l₂).lookup n = l₂.lookup n := by
  rw [List.lookup_append, lookup_none_of_not_key l₁ n h]; rfl

theorem mem_of_lookup {α : Type} (l : List (String × α)) (n : String) (v : α) (h : l.lookup n = some v) : (n, v) ∈ l :=
  AMap.mem_of_get? l n v h

/-- a key all of whose entries carry the same value looks that value up -/
theorem lookup_of_mem_functional {α : Type} (l : List (String × α)) (n : String) (v : α) (hm : (n, v) ∈ l)
    (hf : ∀ v', (n, v') ∈ l → v' = v) : l.lookup n = some v := by
  obtain ⟨v', hv'⟩ := lookup_some_of_key l n (List.mem_map.mpr ⟨(n, v), hm, rfl⟩)
  rw [hv', hf v' (mem_of_lookup l n v' hv')]

/-! ### the entries for the register banks -/

theorem mem_specBankWidths (banks : List BankDecl) (p : String × Width) :
    p ∈ specBankWidths banks ↔ ∃ bd ∈ banks, (∃ sg ∈ sigsOfDecl bd, p = (sg.1, sg.2.2) ∨ p = (sg.2.1, sg.2.2)) ∨
      p = (stallOf bd, .bits 1) ∨ p = (bubbleOf bd, .bits 1) := by
  unfold specBankWidths
  simp only [List.mem_flatMap, List.mem_append, List.mem_cons, List.not_mem_nil, or_false]

/-- the bank entries of the specification and the model's `bankPairs` have the same members -/
theorem mem_specBankWidths_iff_pairs (banks : List BankDecl) (p : String × Width) :
    p ∈ specBankWidths banks ↔
      p ∈ banks.flatMap (fun bd => ((sigsOfDecl bd).flatMap fun sg => [(sg.2.1, sg.2.2), (sg.1, sg.2.2)]) ++
        [(stallOf bd, .bits 1), (bubbleOf bd, .bits 1)]) := by
  rw [mem_specBankWidths]
  simp only [List.mem_flatMap, List.mem_append, List.mem_cons, List.not_mem_nil, or_false]
  constructor
  · rintro ⟨bd, hb, ⟨sg, hs, h | h⟩ | h⟩
    · exact ⟨bd, hb, Or.inl ⟨sg, hs, Or.inr h⟩⟩
    · exact ⟨bd, hb, Or.inl ⟨sg, hs, Or.inl h⟩⟩
    · exact ⟨bd, hb, Or.inr h⟩
  · rintro ⟨bd, hb, ⟨sg, hs, h | h⟩ | h⟩
    · exact ⟨bd, hb, Or.inl ⟨sg, hs, Or.inr h⟩⟩
    · exact ⟨bd, hb, Or.inl ⟨sg, hs, Or.inl h⟩⟩
    · exact ⟨bd, hb, Or.inr h⟩

theorem keys_specBankWidths (banks : List BankDecl) (h2 : ∀ b ∈ banks, TwoChar b) (n : String) :
    n ∈ (specBankWidths banks).map (·.1) ↔ n ∈ bankInOf banks ∨ n ∈ bankOutOf banks ∨ n ∈ bankCtlOf banks := by
  rw [bankInOf_eq banks h2, bankOutOf_eq banks h2, mem_bankCtlOf]
  simp only [List.mem_map, List.mem_flatMap]
  constructor
  · rintro ⟨p, hp, rfl⟩
    obtain ⟨bd, hb, ⟨sg, hs, rfl | rfl⟩ | rfl | rfl⟩ := (mem_specBankWidths banks p).mp hp
    · exact Or.inl ⟨bd, hb, sg, hs, rfl⟩
    · exact Or.inr (Or.inl ⟨bd, hb, sg, hs, rfl⟩)
    · exact Or.inr (Or.inr ⟨bd, hb, Or.inl rfl⟩)
    · exact Or.inr (Or.inr ⟨bd, hb, Or.inr rfl⟩)
  · rintro (⟨bd, hb, sg, hs, rfl⟩ | ⟨bd, hb, sg, hs, rfl⟩ | ⟨bd, hb, rfl | rfl⟩)
    · exact ⟨(sg.1, sg.2.2), (mem_specBankWidths banks _).mpr ⟨bd, hb, Or.inl ⟨sg, hs, Or.inl rfl⟩⟩, rfl⟩
    · exact ⟨(sg.2.1, sg.2.2), (mem_specBankWidths banks _).mpr ⟨bd, hb, Or.inl ⟨sg, hs, Or.inr rfl⟩⟩, rfl⟩
    · exact ⟨(stallOf bd, .bits 1), (mem_specBankWidths banks _).mpr ⟨bd, hb, Or.inr (Or.inl rfl)⟩, rfl⟩
    · exact ⟨(bubbleOf bd, .bits 1), (mem_specBankWidths banks _).mpr ⟨bd, hb, Or.inr (Or.inr rfl)⟩, rfl⟩

theorem builtinWidths_keys : Spec.builtinWidths.map (·.1) = fixedNamesOf y86FixedFunctions := by decide +kernel

theorem builtinWidths_eq : Spec.builtinWidths = y86W0 := by decide +kernel

/-! ### the name-level agreement both directions start from -/

/-- banks are well named; wires and constants are pairwise distinct and are not register signals, control signals or
    built-in names; register signals are pairwise distinct -/
structure Basic (cls : CharClass) (stmts : List Stmt) : Prop where
  good : ∀ b ∈ (el stmts).banks, goodName cls.isLower cls.isUpper b = true
  declNodup : (wireNames stmts ++ constNames stmts).Nodup
  regNodup : (bankInOf (el stmts).banks ++ bankOutOf (el stmts).banks).Nodup
  declFresh : ∀ x ∈ wireNames stmts ++ constNames stmts,
    x ∉ bankInOf (el stmts).banks ++ bankOutOf (el stmts).banks ∧ x ∉ bankCtlOf (el stmts).banks ∧ x ∉ builtinIn ++ builtinOut

theorem goodBanks_el (cls : CharClass) (stmts : List Stmt) (h : ∀ b ∈ (el stmts).banks, goodName cls.isLower cls.isUpper b = true) :
    goodBanks cls.isLower cls.isUpper stmts = (el stmts).banks := by
  unfold goodBanks; exact List.filter_eq_self.mpr h

/-- `Basic` is exactly "no badly named bank and no name declared twice" -/
theorem basic_iff (cls : CharClass) (stmts : List Stmt) :
    Basic cls stmts ↔ (bankFaults cls.isLower cls.isUpper stmts = [] ∧ f1 cls.isLower cls.isUpper stmts = []) := by
  rw [bankFaults_nil_iff, f1_nil_iff]
  constructor
  · rintro ⟨a, b, c, d⟩
    rw [goodBanks_el cls stmts a]
    exact ⟨a, b, c, d⟩
  · rintro ⟨a, b, c, d⟩
    rw [goodBanks_el cls stmts a] at c d
    exact ⟨a, b, c, d⟩

section
variable {cls : CharClass} {stmts : List Stmt} (hb : Basic cls stmts)
include hb

theorem Basic.twoChar : ∀ b ∈ (el stmts).banks, TwoChar b := by
  intro b hbm
  obtain ⟨i, o, h, _⟩ := (goodName_iff _ _ b).mp (hb.good b hbm)
  exact ⟨i, o, h⟩

theorem Basic.goodBanks : goodBanks cls.isLower cls.isUpper stmts = (el stmts).banks := goodBanks_el cls stmts hb.good

theorem Basic.widths : (Spec.design stmts).widths =
    (el stmts).wireWidths ++ specBankWidths (el stmts).banks ++ (cst stmts).1 ++ Spec.builtinWidths :=
  design_widths stmts hb.twoChar

theorem Basic.Γ_wire (n : String) (h : n ∈ wireNames stmts) : (Spec.design stmts).Γ n = (el stmts).wireWidths.lookup n := by
  unfold Spec.Design.Γ
  rw [hb.widths, List.append_assoc, List.append_assoc]
  exact lookup_append_left _ _ n h

theorem Basic.Γ_bank (n : String)
    (h : n ∈ bankInOf (el stmts).banks ∨ n ∈ bankOutOf (el stmts).banks ∨ n ∈ bankCtlOf (el stmts).banks) :
    (Spec.design stmts).Γ n = (specBankWidths (el stmts).banks).lookup n := by
  have hk := (keys_specBankWidths _ hb.twoChar n).mpr h
  have hnw : n ∉ (el stmts).wireWidths.map (·.1) := by
    intro hw
    have hw' : n ∈ wireNames stmts := hw
    have := hb.declFresh n (List.mem_append_left _ hw')
    rcases h with h | h | h
    · exact this.1 (List.mem_append_left _ h)
    · exact this.1 (List.mem_append_right _ h)
    · exact this.2.1 h
  unfold Spec.Design.Γ
  rw [hb.widths, List.append_assoc, List.append_assoc, lookup_append_right _ _ n hnw]
  exact lookup_append_left _ _ n hk

/-- names that are neither wires nor bank signals -/
theorem Basic.Γ_rest (n : String) (h1 : n ∉ wireNames stmts)
    (h2 : ¬ (n ∈ bankInOf (el stmts).banks ∨ n ∈ bankOutOf (el stmts).banks ∨ n ∈ bankCtlOf (el stmts).banks)) :
    (Spec.design stmts).Γ n = ((cst stmts).1.lookup n).or (Spec.builtinWidths.lookup n) := by
  have hk : n ∉ (specBankWidths (el stmts).banks).map (·.1) := fun hk => h2 ((keys_specBankWidths _ hb.twoChar n).mp hk)
  have hnw : n ∉ (el stmts).wireWidths.map (·.1) := h1
  unfold Spec.Design.Γ
  rw [hb.widths, List.append_assoc, List.append_assoc, lookup_append_right _ _ n hnw,
    lookup_append_right _ _ n hk, List.lookup_append]

theorem Basic.const_not_wire (n : String) (h : n ∈ constNames stmts) : n ∉ wireNames stmts := by
  intro hw
  exact (List.nodup_append.mp hb.declNodup).2.2 n hw n h rfl

/-- **constants**: the specification's context gives a constant the width its resolution recorded -/
theorem Basic.Γ_const (n : String) (h : n ∈ constNames stmts) : (Spec.design stmts).Γ n = (cst stmts).1.lookup n := by
  have hf := hb.declFresh n (List.mem_append_right _ h)
  rw [hb.Γ_rest n (hb.const_not_wire n h)]
  · cases hl : (cst stmts).1.lookup n with
    | some w => rfl
    | none =>
      have : n ∉ Spec.builtinWidths.map (·.1) := by
        rw [builtinWidths_keys, ← mem_builtin_iff]; exact hf.2.2
      rw [lookup_none_of_not_key _ n this]; rfl
  · rintro (h' | h' | h')
    · exact hf.1 (List.mem_append_left _ h')
    · exact hf.1 (List.mem_append_right _ h')
    · exact hf.2.1 h'

end

/-- outside the constants the resolution records nothing -/
theorem cst_lookup_none (stmts : List Stmt) (n : String) (h : n ∉ constNames stmts) : (cst stmts).1.lookup n = none := by
  have hinv := cst_inv stmts
  cases hl : (cst stmts).1.lookup n with
  | none => rfl
  | some w =>
    exfalso
    have hh : (cst stmts).2.has n = true := (hinv.has_iff_lookup n).mpr (by rw [hl]; rfl)
    exact h (hinv.dom_defs n hh)

end SF
