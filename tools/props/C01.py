"""C01 — each cycle's wire values are a consistent, order-independent settlement."""
from props import C19
from props.common_prog import judge_prog

THEOREM_MODULES = ["Hcl.Theorems.C01", "Hcl.Tie.Fixed", "Hcl.Tie.PinsRefs"]
THEOREMS = {"Hcl.Tie.PinsRefs": ["Tie.PinsRefs.pinApplyToAll", "Tie.PinsRefs.pinApplyToAllMut", "Tie.PinsRefs.pinReferencedWires", "Tie.PinsRefs.pinFindReferences"],
            "Hcl.Tie.Fixed": ["Tie.Fixed.fixedFunctions"], "Hcl.Theorems.C01": ["C01_accepted", "Program_new_valid", "assignmentsToActions_valid", "C01_settlement", "C01_stable", "settled_unique", "C01_order_independent",
                                 "settled_pure", "defn_local", "ev_congr"]}

RULE = ("S-PROG: random DAG-shaped programs (1-25 wires over all operators, statements shuffled, 0-3 register banks, "
        "every built-in port incl. diamond through a port and output->input chains between components) are built by the "
        "real Program::new (fresh hash seeds, each program built REPEATS times in-process) and stepped 1-12 cycles; "
        "compared after every cycle: all wire values, program registers, memory, status against the Lean model "
        "(correspondence) and against the scheduling-free specification Spec.cycle (oracle); every schedule the real "
        "code produced is validated by schedValid (reads after writes, single writer, state changes last, E before M). "
        "distinct = distinct program texts; non-trivial = accepted programs with at least one wire depending on another.")


def judge(req, impl, model, spec):
    j = judge_prog(req, impl, model, spec)
    if not impl.startswith("ok"):
        j["key"] = None
    return j


def streams(tier, seed):
    q = tier == "quick"
    n = 150 if q else 6000
    return [{"name": "prog-" + p, "stream": "prog", "count": n * (3 if p == "dag" else 1), "extra": (p,), "judge": judge}
            for p in ("dag", "banks", "regfile", "memory", "status")] + [
        # programs with one planted fault: a faulty program that slips through is where the settlement stops being one
        {"name": "prog-fault", "stream": "prog-fault", "count": 400 if q else 15000, "judge": judge},
            # what the user sees goes through the command line and the two files: the real binary on accepted, rejected, big, not-UTF-8, bare-CR files, good and malformed images, all options and TIMEOUT forms (as in C19)
            {"name": "cli", "stream": "cli", "count": 200 if q else 5000, "pygen": C19.pygen, "judge": C19.judge}]
