"""C20 — the instruction trace shows the fetched bytes and their Y86-64 disassembly."""

from props import C19
from props import C18

THEOREM_MODULES = ["Hcl.Theorems.C20", "Hcl.Tie.Disasm"]
THEOREMS = {"Hcl.Tie.Disasm": ["Tie.Disasm.disasmRegisters", "Tie.Disasm.disasmIfuns", "Tie.Disasm.disasmText"], "Hcl.Theorems.C20": ["C20_disasm", "C20_invalid", "C20_line", "rdLE_byte", "disassemble_len_le", "traceLine_bytes"]}

RULE = ("S-DISASM: all 65,536 combinations of the first two instruction bytes x immediates {0, 1, 2^63, 2^64-1, random..} "
        "through the real disassembler (verif-hooks re-export), compared with the Lean model (correspondence) and, where the "
        "bytes are a valid Y86-64 encoding or have an opcode nibble above 0xB, with Spec.pretty/Spec.encode (oracle); and the "
        "'pc = ...; loaded [...]' line of real one-cycle runs at random pcs (near 0, near 2^64, random) over random memory, "
        "compared with traceLine and with the specification line. exhaustive over the first two bytes. "
        "non-trivial = cases whose bytes the specification covers; distinct = distinct requests.")

EXTRA_COVERAGE = {"exhaustive": True}


def judge(req, impl, model, spec):
    cats = []
    ok = True
    what = ""
    if spec == "unspecified":
        cats.append("not-a-valid-encoding")
        key = None
    else:
        key = req
        cats.append("len-" + impl.split("|")[0] if "|" in impl else "trace")
        if impl != spec:
            ok = False
            what = "disassembly/trace differs from CS:APP: impl '%s' spec '%s'" % (impl[:120], spec[:120])
    return {"corr": impl == model, "oracle": ok, "what": what, "key": key, "cats": cats}


def streams(tier, seed):
    q = tier == "quick"
    return [{"name": "disasm", "stream": "disasm", "count": 5 if q else 40, "judge": judge},
            {"name": "trace", "stream": "trace", "count": 3000 if q else 100000, "judge": judge},
            # under -d / --trace-assignments with the instruction line switched off, no `pc = ...` line may appear (data-memory reads
            # are not instruction fetches): the lines of every cycle against the message model, as in C18
            {"name": "messages", "stream": "messages", "count": 200 if q else 6000, "judge": C18.judge_messages},
            # what the user sees goes through the command line and the two files: the real binary on accepted, rejected, big, not-UTF-8, bare-CR files, good and malformed images, all options and TIMEOUT forms (as in C19)
            {"name": "cli", "stream": "cli", "count": 200 if q else 5000, "pygen": C19.pygen, "judge": C19.judge}]
