"""C19 — the command line reports success and failure through its exit status."""
import os
import framework as fw
import cli_stream

THEOREM_MODULES = ["Hcl.Theorems.C19", "Hcl.Tie.Cli", "Hcl.Tie.PinsMain"]
THEOREMS = {"Hcl.Theorems.C19": ["C19_exit", "C19_option_error", "C19_output_matches_status", "C19_check_simulates_nothing"],
            "Hcl.Tie.Cli": ["Tie.Cli.cliOptions", "Tie.Cli.cliDefaultTimeout", "Tie.Cli.cliYoSuffix"],
            "Hcl.Tie.PinsMain": ["Tie.PinsMain.pinMainReal"]}

RULE = ("S-CLI: the real binary (cargo build of /repo's working tree) is run on random argument vectors: 0-3 options from the "
        "documented set in short/long spelling incl. unknown and repeated ones, placed before or among 0-4 positionals; HCL file "
        "{halting, non-halting, error status, run-time division by zero, rejected, syntax error, missing, directory}; image "
        "{valid, malformed, empty, missing, wrong extension, directory}; timeout {0,1,2,3,5,9999,2^32-1,2^32,-1,abc,empty,+3,"
        "' 3','3 ',0x10,1e3,10^20}. Observed: exit status, which of usage/version/'syntax OK'/final state/diagnostics is "
        "printed on which channel, executed cycles and banner of the final report. Compared with the Lean model "
        "Cli.mainReal (correspondence) and with the specification (exit 0 iff what was asked was done; no final state and a "
        "message on failure; exactly timeout cycles, default 9999). distinct = distinct argument vectors.")

_binary = {}


def pygen(seed, count, outfile):
    if "b" not in _binary:
        ok, out, b = fw.build_binary()
        if not ok:
            raise RuntimeError("cargo build of /repo failed: " + out[-1500:])
        _binary["b"] = b
    cli_stream.generate(_binary["b"], seed, count, outfile, os.path.join(fw.BUILD, "cli-work-%d" % os.getpid()))


def judge(req, impl, model, spec):
    cats = [impl.split(" ")[1] if " " in impl else impl]
    ok = True
    what = ""
    ie = impl.split(" ")[0]
    if ie != spec.strip():
        ok = False
        what = "exit status %s but the specification says %s for %s" % (ie, spec, req[req.find("(args"):][:200])
    for flag in ("STDERR-ON-SUCCESS", "SILENT-FAILURE", "BAD-STATUS"):
        if flag in impl:
            ok = False
            what = flag + " for " + req[req.find("(args"):][:200]
    if "out=finalState" in impl:
        cats.append(impl.split("banner=")[1])
    return {"corr": impl == model, "oracle": ok, "what": what, "key": req[req.find("(args"):], "cats": cats}


def streams(tier, seed):
    q = tier == "quick"
    return [{"name": "cli", "stream": "cli", "count": 1200 if q else 30000, "pygen": pygen, "judge": judge}]
