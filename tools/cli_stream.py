#!/usr/bin/env python3
"""S-CLI: argument vectors for the real hclrs binary (built from /repo's working tree), with files on disk.

Writes lines `<request S-expression>\t<observed result>` like the Rust harness does.
"""
import os
import random
import re
import shutil
import subprocess

HCL = {
    "ok_halt": "register cC { n:8 = 0; } c_n = C_n + 1; pc = 0; Stat = [C_n == 2 : STAT_HLT; 1 : STAT_AOK];\n",
    "ok_run": "pc = 0; Stat = STAT_AOK;\n",
    "ok_err": "register cC { n:8 = 0; } c_n = C_n + 1; pc = 0; Stat = [C_n == 1 : STAT_INS; 1 : STAT_AOK];\n",
    "div": "register cC { n:8 = 0; } c_n = C_n + 1; wire x:8; x = 8 / (2 - C_n); pc = 0; Stat = STAT_AOK;\n",
    "rej": "wire a:4; a = 0b11111; pc = 0; Stat = STAT_AOK;\n",
    "syn": "wire ;\n",
    # parse errors at the very end of the file, the last token followed by blanks of more than one byte or a comment
    "syn_nbsp": "pc = 0;\nStat =\u00a0# TODO",
    "syn_wide": "pc = 0;\nStat = (\u3000\u3000",
    "syn_eof": "pc = 0;\nStat = 1 +",
    # the file ends inside a literal: a lexical error at the very end of the input
    "syn_0x_eof": "pc = 0;\nStat = 0x",
    "syn_0b_eof": "pc = 0;\nStat = 0b",
    # a rejected file whose diagnostics name non-ASCII identifiers
    "rej_uni": "pc = 0; Stat = STAT_HLT;\n\u00e9tat = 1;\nregister \u00e9 { k : 8 = 0; }\nwire w:8; w = \u65e5\u672c + 1;\n",
}
# files that are not UTF-8 or use bare carriage returns as line ends: read lossily / CR ends a line and a line comment
HCL_BYTES = {
    # more than 64 KiB: 1500 comment lines, then the program (a reader that stops early sees no program at all)
    "ok_big": b"".join(b"# padding line %04d ............................................\n" % i for i in range(1500)) +
              b"register cC { n:8 = 0; } c_n = C_n + 1; pc = 0;\nStat = [C_n == 2 : STAT_HLT; 1 : STAT_AOK];\n",
    "ok_latin1": b"# caf\xe9 au lait \xff\xfe\nregister cC { n:8 = 0; } c_n = C_n + 1; pc = 0; # arr\xeat\nStat = [C_n == 2 : STAT_HLT; 1 : STAT_AOK];\n",
    "ok_cr": b"register cC { n:8 = 0; }\r# a comment that ends at the carriage return\rc_n = C_n + 1; // another\rpc = 0;\rStat = [C_n == 2 : STAT_HLT; 1 : STAT_AOK];\r",
}
# cycles until the program stops by itself (None = never), error banner, abort cycle
STOP = {"ok_halt": (3, "halted"), "ok_run": (None, None), "ok_err": (2, "error"), "div": (None, None),
        "ok_latin1": (3, "halted"), "ok_cr": (3, "halted"), "ok_big": (3, "halted")}
ABORT_AT = {"div": 3}

YO = {
    "good": "0x000: 30f40001000000000000 |   irmovq $256, %rsp\n0x00a: 00                   |   halt\n",
    "bad": "0x000: 30f4zz01000000000000 |   irmovq $256, %rsp\n",
    "empty": "",
    # malformed in one field only: sign in the address or in a data byte, short line, non-ASCII, missing colon
    "plusaddr": "0x+00: 00                   |   halt\n",
    "plusbyte": "0x000: +0                   |   halt\n",
    "minusaddr": "0x-00: 00                   |   halt\n",
    "shortline": "0x000: 0\n",
    "nonascii": "0x000: 0\u00e9                  |   halt\n",
    "nocolon": "0x000  00                   |   halt\n",
    "oddhex": "0x000: 000                  |   halt\n",
}
# images that cannot be read to the end: a byte sequence that is not UTF-8 on a later line (after lines that load)
YO_BYTES = {
    # a malformed data line (odd number of hex digits) longer than 64 bytes with a two-byte character at every offset from 58 to 70
    **{"longbad%d%s" % (k, n): ("0x000: 000                  | " + "x" * (k - 29) + ch + " tail of a long comment\n").encode("utf-8")
       for k in range(60, 67) for n, ch in (("a", "\u00e9"), ("b", "\u20ac"), ("c", "\U0001F600"))},
    "latin1_later": b"0x000: 30f40001000000000000 |   irmovq $256, %rsp\n0x00a: 00                   |   halt # arr\xeat\n",
    "latin1_mid": b"0x000: 10                   |   nop\n                            | # caf\xe9\n0x001: 00                   |   halt\n",
}
BAD_YO = ["longbad%d%s" % (k, n) for k in range(60, 67) for n in "abc"] + ["bad", "empty", "empty", "plusaddr", "plusbyte", "minusaddr", "nonascii", "oddhex", "nocolon", "latin1_later", "latin1_mid"]
# a line without any '|' is listing text (labels, directives) and is skipped: this loads (an image without bytes)
ODD_YO = ["shortline"]

OPTS = [("-c", "check"), ("--check", "check"), ("-d", "debug"), ("-q", "quiet"), ("--quiet", "quiet"), ("-t", "testing"),
        ("-h", "help"), ("--help", "help"), ("--ungroup-debug-wires", "ungroup"), ("--trace-assignments", "trace"),
        ("--version", "version"), ("--bogus", "BAD"), ("-x", "BAD"), ("--debug", "debug")]
TIMEOUTS = ["0", "1", "2", "3", "5", "9999", "4294967295", "4294967296", "-1", "abc", "", "+3", " 3", "3 ", "0x10", "1e3", "99999999999999999999"]


def esc(s):
    return "".join({" ": "␣", "\t": "␣", "\r": "␣", "\n": "⏎", "(": "⦅", ")": "⦆"}.get(c, c) for c in s)


def prepare(workdir):
    shutil.rmtree(workdir, ignore_errors=True)
    os.makedirs(workdir)
    for n, t in HCL.items():
        open(os.path.join(workdir, n + ".hcl"), "w", encoding="utf-8").write(t)
    for n, t in HCL_BYTES.items():
        open(os.path.join(workdir, n + ".hcl"), "wb").write(t)
    os.makedirs(os.path.join(workdir, "dir.hcl"))
    for n, t in YO.items():
        open(os.path.join(workdir, n + ".yo"), "w", encoding="utf-8").write(t)
    for n, t in YO_BYTES.items():
        open(os.path.join(workdir, n + ".yo"), "wb").write(t)
    open(os.path.join(workdir, "image.txt"), "w").write(YO["good"])
    os.makedirs(os.path.join(workdir, "dir.yo"))


def classify(rc, out, err):
    kind = "none"
    cycles = "-"
    banner = "-"
    if "Unrecognized option" in err or "given more than once" in err or "Option '" in err or "requires an argument" in err:
        kind = "optionMessage"
    elif "Usage:" in out:
        kind = "usage" if rc == 0 else "usageError"
    elif "HCLRS version" in out:
        kind = "version"
    elif "syntax OK" in out:
        kind = "syntaxOk"
    elif "Error reading" in err:
        kind = "readError"
    elif "does not have the extension" in err:
        kind = "notYo"
    elif "is not a valid number" in err:
        kind = "badTimeout"
    elif rc != 0 and err.strip():
        if ("Could not parse" in err or "Empty input file" in err or "Division by zero" in err or "os error" in err
                or "No such file" in err or "Is a directory" in err or "did not contain valid UTF-8" in err):
            kind = "runError"
        else:
            kind = "diagnostics"
            # every location the diagnostics show names a file: it must be the user's file, never <builtin> (C14)
            locs = re.findall(r"-> ([^:\s]+):(\d+)", err)
            if any(n == "<builtin>" or not n.endswith(".hcl") for n, _ in locs):
                kind = "diagnosticsMislocated"
    elif rc == 0 and ("halted in state" in out or "timed out after" in out or "error caused in state" in out):
        kind = "finalState"
        # the LAST dump is the final report
        lines = out.splitlines()
        heads = [l for l in lines if l.startswith("+") and ("in state" in l)]
        last = heads[-1]
        # the final report is the last thing printed: no dump of an intermediate state may follow it, and no line may be torn
        last_at = max(i for i, l in enumerate(lines) if l is last or l == last)
        if any(("between cycles" in l) for l in lines[last_at + 1:]) or any(
                l.startswith(("|", "+")) and not l.rstrip().endswith(("|", "+")) for l in lines):
            kind = "finalStateNotLast"
        if "halted" in last:
            banner = "halted"
        elif "timed out" in last:
            banner = "timedout"
        else:
            banner = "error"
        m = re.findall(r"Cycles run: (\d+)", out)
        t = re.search(r"timed out after\s+(\d+) cycles", last)
        cycles = t.group(1) if t else (m[-1] if m else "-")
    return kind, cycles, banner


def generate(binary, seed, count, outfile, workdir):
    rnd = random.Random(seed)
    prepare(workdir)
    with open(outfile, "w", encoding="utf-8") as f:
        for _ in range(count):
            # options
            nopt = rnd.choice([0, 0, 1, 1, 2, 3])
            chosen = [rnd.choice(OPTS) for _ in range(nopt)]
            if rnd.random() < 0.6 and not any(o[1] in ("help", "version", "check") for o in chosen):
                chosen.append(("-q", "quiet"))     # keep most runs quiet (less output)
            names = [o[1] for o in chosen]
            canonical = {}
            dup = False
            for o, n in chosen:
                if n != "BAD":
                    if n in canonical:
                        dup = True
                    canonical[n] = True
            # positionals
            hcl = rnd.choice(["ok_halt", "ok_halt", "ok_run", "ok_err", "div", "rej", "syn", "missing", "dir", "syn_nbsp", "syn_wide", "syn_eof", "rej_uni", "ok_latin1", "ok_cr", "ok_big", "syn_0x_eof", "syn_0b_eof"])
            traw = rnd.choice(TIMEOUTS)
            if hcl == "ok_run" and traw in ("4294967295",):
                hcl = "ok_halt"        # a non-halting program with a 2^32-1 budget would run for hours
            yo = rnd.choice(["good", "good", "good", "good", rnd.choice(BAD_YO), rnd.choice(BAD_YO), rnd.choice(BAD_YO), "empty", rnd.choice(ODD_YO), "missing", "image.txt", "dir"])
            nfree = rnd.choice([0, 1, 1, 2, 2, 2, 3, 3, 3, 4])
            free = []
            if nfree >= 1:
                free.append(hcl + ".hcl")
            if nfree >= 2:
                free.append(yo if yo == "image.txt" else yo + ".yo")
            if nfree >= 3:
                free.append(traw)
            if nfree >= 4:
                free.append("extra")
            argv = [o[0] for o in chosen]
            pos = rnd.randrange(len(argv) + 1)
            args = argv[:pos] + free + argv[pos:] if rnd.random() < 0.3 else argv + free
            # a positional that looks like an option is an option error for getopts
            opterr = ("BAD" in names) or dup or any(a.startswith("-") and len(a) > 1 for a in free)
            timeout = None
            if nfree >= 3 and re.fullmatch(r"\+?[0-9]+", traw) and int(traw) < 2 ** 32:
                timeout = int(traw)
            if nfree == 2:
                timeout = 9999
            # big timeouts without -q print megabytes: force quiet
            if timeout is not None and timeout > 50 and "quiet" not in canonical and hcl in ("ok_run", "div"):
                args = ["-q"] + args
                if "quiet" in canonical:
                    opterr = True
                canonical["quiet"] = True
            hclstate = "rejected" if hcl.startswith(("rej", "syn")) else {"missing": "unreadable", "dir": "unreadable"}.get(hcl, "accepted")
            yostate = {"good": "loaded", "image.txt": "loaded", "shortline": "loaded", "missing": "unopenable",
                       "dir": "unloadable"}.get(yo, "unloadable")
            run = "finished"
            cycles = "-"
            banner = "-"
            if hclstate == "accepted" and timeout is not None:
                stop, ban = STOP.get(hcl, (None, None))
                ab = ABORT_AT.get(hcl)
                if ab is not None and timeout >= ab:
                    run = "aborted"
                else:
                    if stop is not None and stop <= timeout:
                        cycles, banner = stop, ban
                    else:
                        cycles, banner = timeout, "timedout"
                    if banner == "error" and cycles == timeout:
                        banner = "timedout"   # C06: halted if the last Stat is HLT, otherwise timed out when the budget is used up
                    if banner == "halted" and cycles == timeout:
                        cycles = "-"          # halted exactly at the timeout: the report has no 'Cycles run:' line (see C06)
            p = subprocess.run([binary] + args, cwd=workdir, stdin=subprocess.DEVNULL, stdout=subprocess.PIPE,
                               stderr=subprocess.PIPE, timeout=120)
            out = p.stdout.decode("utf-8", "replace")
            err = p.stderr.decode("utf-8", "replace")
            kind, ocyc, oban = classify(p.returncode, out, err)
            impl = "exit=%d out=%s" % (p.returncode, kind)
            if kind == "finalState":
                impl += " cycles=%s banner=%s" % (ocyc, oban)
            # consistency of the output channels with the status (C19): recorded as part of the observed result
            if p.returncode == 0 and err.strip():
                impl += " STDERR-ON-SUCCESS"
            if p.returncode != 0 and not err.strip() and kind not in ("usageError",):
                impl += " SILENT-FAILURE"
            if p.returncode not in (0, 1):
                impl += " BAD-STATUS"
            req = ("(cli (opterr %d) (help %d) (version %d) (check %d) (nfree %d) (hcl %s) (suffix %d) (yo %s) (traw %s) (run %s) "
                   "(cycles %s) (banner %s) (args %s))") % (
                1 if opterr else 0, 1 if "help" in canonical else 0, 1 if "version" in canonical else 0,
                1 if "check" in canonical else 0, nfree, hclstate, 1 if (nfree >= 2 and free[1].endswith(".yo")) else 0, yostate,
                esc(traw) if nfree >= 3 and traw != "" else "␀", run, cycles, banner, esc(" ".join(args)))
            f.write(req + "\t" + impl + "\n")
