import Hcl.Proofs.FaultNamedSoundActions
import Hcl.Proofs.FaultNamedSoundStage3
open Rust ActIff

/-! Soundness of the diagnostics of `assignments_to_actions`, for an arbitrary component table and then at the level of
    `Program::new` for the Y86 table. -/

namespace FaultNamed

theorem amap_get?_none_contains {α : Type} (m : AMap α) (k : String) (h : m.get? k = none) : m.contains k = false := by
  cases hc : m.contains k with
  | false => rfl
  | true =>
    obtain ⟨v, hv⟩ := (AMap.contains_iff_lookup _ _).mp hc
    have : m.get? k = some v := hv
    rw [h] at this; cases this

/-- what a diagnostic of the loop over the sorted names claims -/
def LoopDiag (fl : Flags) (assignments : AMap Ex) (widths : AMap Width) (known : List String)
    (fixed : List FixedFunction) (declared : List String) (constants : AMap WireValue) (d : Diag) : Prop :=
  -- an assigned name without a width
  (∃ n e, assignments.get? n = some e ∧ widths.get? n = none ∧ d = ⟨.UndeclaredWireAssigned, [n]⟩) ∨
  -- a diagnostic of the width checker for the expression assigned to a name that has a width
  (∃ n e w ds', assignments.get? n = some e ∧ widths.get? n = some w ∧
    check fl widths.toCtx constants.toEnv e = .error ds' ∧ d ∈ ds') ∨
  -- the width of the expression does not fit the declared width of the target
  (∃ n e w ew, assignments.get? n = some e ∧ widths.get? n = some w ∧
    check fl widths.toCtx constants.toEnv e = .ok ew ∧ w.combine ew = none ∧ d = ⟨.MismatchedWireWidths, [n]⟩) ∨
  -- a name read by an assignment that has no driver: not assigned, not known (constant / register output), not the
  -- output of a component that has all its inputs
  (∃ r, ((d = ⟨.UnsetWire, [r]⟩ ∧ r ∈ declared) ∨ (d = ⟨.UnsetUndeclaredWire, [r]⟩ ∧ r ∉ declared)) ∧
    assignments.contains r = false ∧ (∃ p ∈ assignments, r ∈ refs p.2) ∧ known.contains r = false ∧
    ∀ f ∈ fixed, (∃ w, f.outWire = some (r, w)) → ¬ Active assignments f)

/-- **the three exits of `assignments_to_actions`**, each with what its diagnostics claim -/
theorem assignmentsToActions_sound (fl : Flags) (o : Orders) (assignments : AMap Ex) (widths : AMap Width)
    (known : List String) (fixed : List FixedFunction) (declared : List String) (constants : AMap WireValue)
    (ho : OrdersOK o) (ht : FixedTableOK fixed) (hk : assignments.keys.Nodup)
    (hio : ∀ f ∈ fixed, ∀ g ∈ fixed, ∀ w, g.outWire = some w → w.1 ∉ f.inWires.map (·.1))
    (hin : ∀ f ∈ fixed, ∀ n ∈ f.inWires.map (·.1), known.contains n = false)
    (hout : ∀ f ∈ fixed, ∀ n w, f.outWire = some (n, w) → known.contains n = false ∧ assignments.contains n = false)
    (ds : List Diag) (h : assignmentsToActions fl o assignments widths known fixed declared constants = .error ds) :
    ((preOf fl assignments widths known fixed constants).errors ≠ [] ∧
      ds = (preOf fl assignments widths known fixed constants).errors) ∨
    ((preOf fl assignments widths known fixed constants).errors = [] ∧
      ∃ c, ds = [⟨.WireLoop, c⟩] ∧ RelCycle (ActDep assignments fixed) c) ∨
    ((preOf fl assignments widths known fixed constants).errors = [] ∧
      ∀ d ∈ ds, LoopDiag fl assignments widths known fixed declared constants d) := by
  have hnp := assignmentsToActions_np fl o assignments widths known fixed declared constants ho ht hk hin hout ds h
  by_cases hpe : (preOf fl assignments widths known fixed constants).errors = []
  · right
    obtain ⟨g0wf, g0nodes, g0edges⟩ := assignGraph_spec assignments known hk
    have g0up := assignGraph_nodes_upper assignments known
    have hg0c : ∀ e ∈ (assignGraph assignments known).edges, assignments.contains e.2 = true := by
      intro e he
      obtain ⟨ex, hm, _⟩ := (g0edges e.1 e.2).mp he
      exact (AMap.contains_iff_mem_keys _ _).mpr (List.mem_map.mpr ⟨(e.2, ex), hm, rfl⟩)
    have hinit : PreFacts assignments known (assignGraph assignments known) [] ({ graph := assignGraph assignments known } : PreState) :=
      { noOut := by intro f hf; simp at hf
        byKeys := by simp [AMap.keys]
        byOut := by intro n f hf; simp at hf
        wf := g0wf
        nodes := fun n hn => hn
        edges := fun e he => Or.inl he
        noOutSub := List.Sublist.refl _
        edgesG0 := fun e he => he
        edgesFixed := by intro n f hf; simp at hf }
    have hpf : PreFacts assignments known (assignGraph assignments known) fixed (preOf fl assignments widths known fixed constants) :=
      preprocess_fold_facts fl widths constants assignments known fixed ht _ hg0c fixed [] _ (by simp) hinit hpe
    have hconv := preprocess_fold_conv fl widths constants assignments known fixed ht _ hg0c fixed [] _ (by simp) hinit
      (by intro g hg; simp at hg) (by intro g hg; simp at hg) hpe
    obtain ⟨hcomp, hcond⟩ := hconv
    have hcomp' : ∀ g ∈ fixed, Active assignments g → ∀ n w, g.outWire = some (n, w) →
        (preOf fl assignments widths known fixed constants).info.byOutput.get? n = some g := hcomp
    have hunused : ∀ f ∈ fixed, ¬ Active assignments f → ∀ n w, f.outWire = some (n, w) →
        ∀ p ∈ assignments, n ∉ refs p.2 := by
      intro f hf hna n w hfo p hp hr
      have hnn := ((hcond f hf).2 hna).1 n w hfo
      have hedge : (n, p.1) ∈ (assignGraph assignments known).edges := (g0edges n p.1).mpr ⟨p.2, hp, hr, (hout f hf n w hfo).1⟩
      exact hnn (g0wf.closed _ hedge).1
    have hinv0 : PreInv assignments (assignGraph assignments known) [] ({ graph := assignGraph assignments known } : PreState) :=
      ⟨rfl, fun n hn => Or.inl hn, by intro f hf; simp at hf⟩
    have hinv : PreInv assignments (assignGraph assignments known) fixed (preOf fl assignments widths known fixed constants) :=
      preprocess_fold_inv fl widths constants assignments known fixed ht _ g0up hio hin hout (fun f hf => (hcond f hf).1) hunused
        (fun f hf hna => ((hcond f hf).2 hna).2) fixed [] _ (by simp) hinv0
    unfold assignmentsToActions at h
    simp only at h
    have hfold : List.foldl (preprocessOne fl widths constants assignments known) { graph := assignGraph assignments known } fixed =
      preOf fl assignments widths known fixed constants := rfl
    rw [hfold, hpe] at h
    simp only [List.isEmpty_nil, Bool.not_true, Bool.false_eq_true, if_false] at h
    rcases (preOf fl assignments widths known fixed constants).graph.sort_spec o hpf.wf ho with
      ⟨order, hso, _, hcover, _⟩ | ⟨c, hsc, hcyc⟩
    · right
      refine ⟨hpe, ?_⟩
      rw [hso] at h
      simp only at h
      -- a name of the order that has neither an assignment nor a component driving it
      have hnodrv : ∀ name ∈ order, assignments.get? name = none →
          (preOf fl assignments widths known fixed constants).info.byOutput.get? name = none →
          (∃ p ∈ assignments, name ∈ refs p.2) ∧ known.contains name = false ∧
          ∀ f ∈ fixed, (∃ w, f.outWire = some (name, w)) → ¬ Active assignments f := by
        intro name hname hget hby
        have hca := amap_get?_none_contains _ _ hget
        have hcb := amap_get?_none_contains _ _ hby
        have hnd : ∀ f ∈ fixed, (∃ w, f.outWire = some (name, w)) → ¬ Active assignments f := by
          intro f hf ⟨w, hw⟩ hact
          have := hcomp' f hf hact name w hw
          rw [hby] at this; cases this
        rcases hinv.nodesUp name ((hcover name).mp hname) with hn | ⟨f, hf, hact, hn | ⟨w, hw⟩⟩
        · rcases g0up name hn with h1 | ⟨p, hp, hr, hkn⟩
          · rw [hca] at h1; cases h1
          · exact ⟨⟨p, hp, hr⟩, hkn, hnd⟩
        · have := hact name hn
          rw [hca] at this; cases this
        · exact absurd hact (hnd f hf ⟨w, hw⟩)
      generalize hst : actionsLoop fl assignments widths declared constants
        (preOf fl assignments widths known fixed constants).info.byOutput order { covered := known } = stf at h
      obtain ⟨a1, a2⟩ := actionsLoop_sound fl assignments widths declared constants
        (preOf fl assignments widths known fixed constants).info.byOutput order { covered := known }
      rw [hst] at a1 a2
      split at h
      · cases h
      · simp only [Except.error.injEq] at h
        subst h
        intro d hd
        rcases List.mem_append.mp hd with hd' | hd'
        · rcases a1 d hd' with h1 | h1 | ⟨name, hname, h1⟩
          · cases h1
          · exfalso
            have : d = ⟨.InternalPanic, []⟩ := List.mem_singleton.mp h1
            exact hnp d hd (by rw [this])
          · unfold nameErrs at h1
            cases hget : assignments.get? name with
            | some e =>
              rw [hget] at h1
              simp only at h1
              cases hw : widths.get? name with
              | none =>
                rw [hw] at h1
                exact Or.inl ⟨name, e, hget, hw, List.mem_singleton.mp h1⟩
              | some w =>
                rw [hw] at h1
                simp only at h1
                cases hc : check fl widths.toCtx constants.toEnv e with
                | error ds' =>
                  rw [hc] at h1
                  exact Or.inr (Or.inl ⟨name, e, w, ds', hget, hw, hc, h1⟩)
                | ok ew =>
                  rw [hc] at h1
                  simp only at h1
                  cases hcomb : w.combine ew with
                  | some _ => rw [hcomb] at h1; cases h1
                  | none =>
                    rw [hcomb] at h1
                    exact Or.inr (Or.inr (Or.inl ⟨name, e, w, ew, hget, hw, hc, hcomb, List.mem_singleton.mp h1⟩))
            | none =>
              rw [hget] at h1
              simp only at h1
              cases hby : (preOf fl assignments widths known fixed constants).info.byOutput.get? name with
              | some f => rw [hby] at h1; cases h1
              | none =>
                rw [hby] at h1
                simp only at h1
                by_cases hdcl : declared.contains name = true
                · rw [if_pos hdcl] at h1
                  obtain ⟨hr, hkn, hnd⟩ := hnodrv name hname hget hby
                  exact Or.inr (Or.inr (Or.inr ⟨name, Or.inl ⟨List.mem_singleton.mp h1, List.contains_iff_mem.mp hdcl⟩,
                    amap_get?_none_contains _ _ hget, hr, hkn, hnd⟩))
                · rw [if_neg hdcl] at h1; cases h1
        · obtain ⟨n, hn, e⟩ := List.mem_map.mp hd'
          rcases a2 n hn with h1 | ⟨hname, hu⟩
          · cases h1
          · unfold nameUndecl at hu
            simp only [Bool.and_eq_true, Option.isNone_iff_eq_none, Bool.not_eq_true'] at hu
            obtain ⟨⟨hget, hby⟩, hdcl⟩ := hu
            obtain ⟨hr, hkn, hnd⟩ := hnodrv n hname hget hby
            refine Or.inr (Or.inr (Or.inr ⟨n, Or.inr ⟨e.symm, ?_⟩, amap_get?_none_contains _ _ hget, hr, hkn, hnd⟩))
            intro hm
            have := List.contains_iff_mem.mpr hm
            rw [hdcl] at this; cases this
    · left
      rw [hsc] at h
      simp only [Except.error.injEq] at h
      refine ⟨hpe, c, h.symm, ?_⟩
      apply relCycle_mono _ c ((preOf fl assignments widths known fixed constants).graph.cycle_edges o ho c hcyc)
      intro u v huv
      rcases hpf.edges (u, v) huv with h1 | ⟨f, hf, hi⟩
      · obtain ⟨e, he, hr, _⟩ := (g0edges u v).mp h1
        exact Or.inl ⟨e, he, hr⟩
      · obtain ⟨hfd, hw, _⟩ := hpf.byOut v f hf
        exact Or.inr ⟨f, hfd, hw, hi⟩
  · left
    rw [assignmentsToActions_pre_error fl o assignments widths known fixed declared constants hpe] at h
    simp only [Except.error.injEq] at h
    exact ⟨hpe, h.symm⟩

/-- the diagnostics of the first exit for a table in which no input is an output and the outputs are distinct: a
    component's output that is a node of the graph when the component is met is read by an assignment -/
theorem preOf_sound' (fl : Flags) (assignments : AMap Ex) (widths : AMap Width) (known : List String)
    (fixed : List FixedFunction) (constants : AMap WireValue) (ht : FixedTableOK fixed)
    (hio : ∀ f ∈ fixed, ∀ g ∈ fixed, ∀ w, g.outWire = some w → w.1 ∉ f.inWires.map (·.1))
    (hout : ∀ f ∈ fixed, ∀ n w, f.outWire = some (n, w) → known.contains n = false ∧ assignments.contains n = false)
    (d : Diag) (hd : d ∈ (preOf fl assignments widths known fixed constants).errors) :
    d ∈ panicDiag ∨ ∃ f ∈ fixed,
      (∃ n ∈ f.inWires.map (·.1), d = ⟨.UnsetBuiltinWire, [n]⟩ ∧ assignments.contains n = false ∧
        (f.mandatory = true ∨ ∃ out w, f.outWire = some (out, w) ∧ ∃ p ∈ assignments, out ∈ refs p.2)) ∨
      (d = ⟨.PartialFixedInput, (f.inWires.map (·.1)).filter (fun n => assignments.contains n) ++ ["/"] ++
          (f.inWires.map (·.1)).filter (fun n => !assignments.contains n)⟩ ∧
        f.mandatory = false ∧ (∃ i ∈ f.inWires.map (·.1), assignments.contains i = true) ∧
        (∃ i ∈ f.inWires.map (·.1), assignments.contains i = false) ∧ ¬ DisabledBy fl widths constants assignments f) := by
  rcases preOf_sound fl assignments widths known fixed constants d hd with h | ⟨pre, f, post, hl, h⟩
  · exact Or.inl h
  · right
    have hf : f ∈ fixed := by rw [hl]; simp
    refine ⟨f, hf, ?_⟩
    rcases h with ⟨n, hn, e, ha, h⟩ | h
    · refine Or.inl ⟨n, hn, e, ha, ?_⟩
      rcases h with h | ⟨out, w, ho, hm⟩
      · exact Or.inl h
      · refine Or.inr ⟨out, w, ho, ?_⟩
        rcases List.mem_append.mp hm with hm | hm
        · rcases assignGraph_nodes_upper assignments known out hm with h1 | ⟨p, hp, hr, _⟩
          · rw [(hout f hf out w ho).2] at h1; cases h1
          · exact ⟨p, hp, hr⟩
        · exfalso
          obtain ⟨g, hg, hm⟩ := List.mem_flatMap.mp hm
          have hgf : g ∈ fixed := by rw [hl]; exact List.mem_append_left _ hg
          rcases List.mem_append.mp hm with hm | hm
          · exact hio g hgf f hf (out, w) ho hm
          · cases hgo : g.outWire with
            | none => rw [hgo] at hm; cases hm
            | some q =>
              obtain ⟨n', w'⟩ := q
              rw [hgo] at hm
              simp only [List.mem_singleton] at hm
              have hnd := ht.outs
              rw [hl, List.filterMap_append, List.nodup_append] at hnd
              exact hnd.2.2 out (List.mem_filterMap.mpr ⟨g, hg, by simp [hgo, hm]⟩) out
                (List.mem_filterMap.mpr ⟨f, List.mem_cons_self, by simp [ho]⟩) rfl
    · exact Or.inr h

/-! ### at the level of `Program::new` -/

section
variable {fl : Flags} {cls : CharClass} {o : Orders} {stmts : List Stmt} {constants : AMap WireValue}

/-- with stages 1 to 4 silent, a rejection by `Program::new` is the rejection by `assignments_to_actions` -/
theorem Stages14.actions_error (h : Stages14 fl cls o stmts constants) (ds : List Diag)
    (hnew : Program.new fl cls o y86FixedFunctions stmts = .error ds) :
    assignmentsToActions fl o (step1Of stmts).assignments (widthsOf fl cls stmts constants)
      (knownNames fl cls stmts constants) y86FixedFunctions (step1Of stmts).declared constants = .error ds := by
  cases hata : assignmentsToActions fl o (step1Of stmts).assignments (widthsOf fl cls stmts constants)
      (knownNames fl cls stmts constants) y86FixedFunctions (step1Of stmts).declared constants with
  | error ds' =>
    have := h.gate ds' hata
    rw [this] at hnew
    simp only [Except.error.injEq] at hnew
    rw [hnew]
  | ok acts =>
    exfalso
    have h1 : errs1Of (step1Of stmts) = [] := errs1Of_nil_of fl o y86FixedFunctions stmts constants h.s12
    have hrefs : ∀ p ∈ (step1Of stmts).constantsRaw, ∀ r ∈ refs p.2, (step1Of stmts).constantsRaw.contains r = true := by
      unfold errs1Of at h1
      rw [List.append_eq_nil_iff] at h1
      exact (constRefErrors_nil_iff _).mp h1.2
    obtain ⟨hyp, _, _, _⟩ := h.facts
    have hw : ∀ b ∈ (step1Of stmts).banksRaw, ∀ r ∈ b.regs, r.width.ok := fun b hb r hr => (hyp.s1inv.banks b hb r hr).1
    have hs3clean := (step3Of_errors_nil_iff fl cls (step1Of stmts) constants hw).mpr ⟨h.banksOK, h.registerNamesNodup⟩
    obtain ⟨p, hp⟩ := Program_new_ok_of_stages fl cls o stmts h.orders constants h1 hrefs h.wf h.s12.constantsResolve hs3clean
      (fun n hn => (step1Of_assignments_contains_iff stmts n).mpr (h.neededAssigned n hn)) ⟨acts, hata⟩
    rw [hp] at hnew
    cases hnew

/-- **soundness of the diagnostics of stage 5**: with stages 1 to 4 silent, a rejection consists of diagnostics of
    `preprocess_fixed`, or of one loop report naming a real cycle, or of diagnostics of the loop over the sorted names -/
theorem stage5_sound (h : Stages14 fl cls o stmts constants) (ds : List Diag)
    (hnew : Program.new fl cls o y86FixedFunctions stmts = .error ds) :
    -- first exit: the built-in components
    ((preOf fl (step1Of stmts).assignments (widthsOf fl cls stmts constants) (knownNames fl cls stmts constants)
        y86FixedFunctions constants).errors ≠ [] ∧
      ∀ d ∈ ds, ∃ f ∈ y86FixedFunctions,
        (∃ n ∈ f.inWires.map (·.1), d = ⟨.UnsetBuiltinWire, [n]⟩ ∧ n ∉ allTargets stmts ∧
          (f.mandatory = true ∨ ∃ out w, f.outWire = some (out, w) ∧ ∃ p ∈ (step1Of stmts).assignments, out ∈ refs p.2)) ∨
        (d = ⟨.PartialFixedInput, (f.inWires.map (·.1)).filter (fun n => (step1Of stmts).assignments.contains n) ++ ["/"] ++
            (f.inWires.map (·.1)).filter (fun n => !(step1Of stmts).assignments.contains n)⟩ ∧
          f.mandatory = false ∧ (∃ i ∈ f.inWires.map (·.1), i ∈ allTargets stmts) ∧
          (∃ i ∈ f.inWires.map (·.1), i ∉ allTargets stmts) ∧
          ¬ DisabledBy fl (widthsOf fl cls stmts constants) constants (step1Of stmts).assignments f)) ∨
    -- second exit: a dependency cycle
    ((preOf fl (step1Of stmts).assignments (widthsOf fl cls stmts constants) (knownNames fl cls stmts constants)
        y86FixedFunctions constants).errors = [] ∧
      ∃ c, ds = [⟨.WireLoop, c⟩] ∧ RelCycle (ActDep (step1Of stmts).assignments y86FixedFunctions) c) ∨
    -- third exit: the loop over the sorted names
    ((preOf fl (step1Of stmts).assignments (widthsOf fl cls stmts constants) (knownNames fl cls stmts constants)
        y86FixedFunctions constants).errors = [] ∧
      ∀ d ∈ ds,
        (∃ n, d = ⟨.UndeclaredWireAssigned, [n]⟩ ∧ n ∈ allTargets stmts ∧ (widthsOf fl cls stmts constants).get? n = none) ∨
        (∃ n e w ds', (step1Of stmts).assignments.get? n = some e ∧ (widthsOf fl cls stmts constants).get? n = some w ∧
          check fl (widthsOf fl cls stmts constants).toCtx constants.toEnv e = .error ds' ∧ d ∈ ds') ∨
        (∃ n e w ew, d = ⟨.MismatchedWireWidths, [n]⟩ ∧ (step1Of stmts).assignments.get? n = some e ∧
          (widthsOf fl cls stmts constants).get? n = some w ∧
          check fl (widthsOf fl cls stmts constants).toCtx constants.toEnv e = .ok ew ∧ w.combine ew = none) ∨
        (∃ r, ((d = ⟨.UnsetWire, [r]⟩ ∧ r ∈ allDeclared stmts) ∨ (d = ⟨.UnsetUndeclaredWire, [r]⟩ ∧ r ∉ allDeclared stmts)) ∧
          r ∉ allTargets stmts ∧ (∃ p ∈ (step1Of stmts).assignments, r ∈ refs p.2) ∧
          r ∉ knownNames fl cls stmts constants ∧
          ∀ f ∈ y86FixedFunctions, (∃ w, f.outWire = some (r, w)) → ¬ Active (step1Of stmts).assignments f)) := by
  obtain ⟨hyp, hin, hout, _⟩ := h.facts
  have hata := h.actions_error ds hnew
  have hnp := assignmentsToActions_np fl o _ _ _ _ _ constants h.orders y86Fixed_table hyp.s1inv.aKeys hin hout ds hata
  have hnt : ∀ n, (step1Of stmts).assignments.contains n = false → n ∉ allTargets stmts := by
    intro n hc hm
    have := (step1Of_assignments_contains_iff stmts n).mpr hm
    rw [hc] at this; cases this
  rcases assignmentsToActions_sound fl o (step1Of stmts).assignments (widthsOf fl cls stmts constants)
    (knownNames fl cls stmts constants) y86FixedFunctions (step1Of stmts).declared constants h.orders y86Fixed_table
    hyp.s1inv.aKeys y86_hio hin hout ds hata with ⟨hpe, hds⟩ | ⟨hpe, hc⟩ | ⟨hpe, hall⟩
  · left
    refine ⟨hpe, ?_⟩
    intro d hd
    have hd' := hd
    rw [hds] at hd'
    rcases preOf_sound' fl _ _ _ y86FixedFunctions constants y86Fixed_table y86_hio hout d hd' with hp | ⟨f, hf, hj⟩
    · exfalso
      have : d = ⟨.InternalPanic, []⟩ := List.mem_singleton.mp hp
      exact hnp d hd (by rw [this])
    · refine ⟨f, hf, ?_⟩
      rcases hj with ⟨n, hn, e, ha, hj⟩ | ⟨e, hm, ⟨i, hi, hia⟩, ⟨j, hj, hja⟩, hdis⟩
      · exact Or.inl ⟨n, hn, e, hnt n ha, hj⟩
      · exact Or.inr ⟨e, hm, ⟨i, hi, (step1Of_assignments_contains_iff stmts i).mp hia⟩, ⟨j, hj, hnt j hja⟩, hdis⟩
  · exact Or.inr (Or.inl ⟨hpe, hc⟩)
  · right; right
    refine ⟨hpe, ?_⟩
    intro d hd
    rcases hall d hd with ⟨n, e, hg, hw, hd'⟩ | ⟨n, e, w, ds', hg, hw, hc, hd'⟩ | ⟨n, e, w, ew, hg, hw, hc, hcomb, hd'⟩ |
      ⟨r, hk, ha, hr, hkn, hnd⟩
    · refine Or.inl ⟨n, hd', ?_, hw⟩
      exact (step1Of_assignments_contains_iff stmts n).mp ((AMap.contains_iff_lookup _ _).mpr ⟨e, hg⟩)
    · exact Or.inr (Or.inl ⟨n, e, w, ds', hg, hw, hc, hd'⟩)
    · exact Or.inr (Or.inr (Or.inl ⟨n, e, w, ew, hd', hg, hw, hc, hcomb⟩))
    · refine Or.inr (Or.inr (Or.inr ⟨r, ?_, hnt r ha, hr, ?_, hnd⟩))
      · rcases hk with ⟨e, hm⟩ | ⟨e, hm⟩
        · exact Or.inl ⟨e, (step1Of_declared_iff stmts r).mp hm⟩
        · exact Or.inr ⟨e, fun hx => hm ((step1Of_declared_iff stmts r).mpr hx)⟩
      · intro hm
        have := List.contains_iff_mem.mpr hm
        rw [hkn] at this; cases this

end

end FaultNamed
