import Hcl.Model.Yo
import Hcl.Util.Format

/-!
# Where a fault is, said directly (specification for C14)

A position `s` in the user's text `U` (a list of bytes) is on line `1 + (number of line feeds before s)`;
that line's text is what lies between the previous line feed and the next one, less a carriage return
directly in front of that line feed.  A located diagnostic for the span `[s, e)` inside one line shows

```
     -> FILE:LINE
     |
LINE | text of the line
     |     ^^^^
```
with as many blanks before the carets as there are bytes before `s` on its line.
-/

namespace Spec

def lineNo (U : Bytes) (s : Nat) : Nat := 1 + (U.take s).count 10

/-- number of bytes between the last line feed before `s` and `s` -/
def column (U : Bytes) (s : Nat) : Nat := ((U.take s).reverse.takeWhile (· ≠ 10)).length

/-- the line around `s`, without its terminator -/
def lineText (U : Bytes) (s : Nat) : Bytes :=
  let from_ := U.drop (s - column U s)
  let body := from_.takeWhile (· ≠ 10)
  if body.length < from_.length ∧ body.getLast? = some 13 then body.dropLast else body

def dec (n : Nat) : Bytes := (decDigits 45 n).map Char.toNat

def rightAlign4 (b : Bytes) : Bytes := List.replicate (4 - b.length) 32 ++ b

/-- the expected rendering; `none` where this specification does not say (span outside the text of one line) -/
def region (name U : Bytes) (s e : Nat) : Option Bytes :=
  let col := column U s
  let text := lineText U s
  if s ≤ e ∧ e ≤ U.length ∧ col + (e - s) ≤ text.length ∧ text ≠ [] then
    some (Yo.str "     -> " ++ name ++ Yo.str ":" ++ dec (lineNo U s) ++ [10] ++
          Yo.str "     |" ++ [10] ++
          rightAlign4 (dec (lineNo U s)) ++ Yo.str " | " ++ text ++ [10] ++
          Yo.str "     | " ++ List.replicate col 32 ++ List.replicate (e - s) 94 ++ [10])
  else none

end Spec
