"""C10 — combinational loops are detected exactly, and the reported loop is real."""
from props import C19
from props.common_prog import judge_prog

THEOREM_MODULES = ["Hcl.Theorems.C10", "Hcl.Tie.PinsGraph", "Hcl.Theorems.C10Exact", "Hcl.Theorems.C08Spec", "Hcl.Tie.PinsRefs"]
THEOREMS = {"Hcl.Tie.PinsRefs": ["Tie.PinsRefs.pinApplyToAll", "Tie.PinsRefs.pinApplyToAllMut", "Tie.PinsRefs.pinReferencedWires", "Tie.PinsRefs.pinFindReferences"],
            "Hcl.Theorems.C08Spec": ["C08_spec_accepts_sound", "C08_spec_accepts_complete", "C08_spec_faults_iff_accepted", "accepted_design_tables", "SF.cyclicNodes_nil_iff", "SF.faults_nil_iff"],
            "Hcl.Theorems.C10Exact": ["C10_constant_loop_reported", "C10_wire_loop_reported", "C10_constants_cycle_iff", "resolveConstants_cycle_reported", "assignmentsToActions_cycle_reported"],
            "Hcl.Theorems.C10": ["C10_accepted_acyclic", "C10_cycle_iff", "C10_sorter_spec", "C10_never_panics", "C10_reported_loop_is_real",
                                 "C10_reported_loop_real", "Program_new_nl", "resolveConstants_nl", "assignmentsToActions_nl", "check_nl"],
            "Hcl.Tie.PinsGraph": ["Tie.PinsGraph.pinTopologicalSort", "Tie.PinsGraph.pinFindCycle"]}

RULE = ("S-GRAPH: every digraph (self loops allowed) on 0..4 labelled nodes in quick (0..4 plus all 2^25 on 5 nodes "
        "in thorough) and random graphs of 5-40 nodes near the cyclic threshold are sorted by the real "
        "Graph::topological_sort through the verif-hooks wrapper; the Lean model is re-run with the hash-iteration "
        "orders the real code logged and must return the identical list (correspondence); independently the returned "
        "order/cycle is validated against reachability-based cyclicity (oracle). A case is non-trivial when the graph "
        "has at least one edge; distinct = distinct (edge list, logged order) requests. S-PROG loop injection: random programs with "
        "an attempted dependency loop (self, 2- and 3-cycles, constant definitions, back edge from a late wire to an early "
        "one, through each combinational component incl. a read port disabled by a constant, and - must be accepted - "
        "through register banks and write ports), built 4 times each; accept/reject compared with model and with the "
        "reachability-based Spec.faults.")


def judge(req, impl, model, spec):
    cats = []
    kind = impl.split(" ")[0] if impl else "none"
    cats.append("impl-" + kind)
    ok_corr = (impl == model)
    oracle = spec.endswith("impl-valid")
    what = ""
    if not oracle:
        what = "sorter answered '%s' but the graph is %s (answer invalid)" % (impl[:200], spec.split(" ")[0])
    nontrivial = "(edges)" not in req
    return {"corr": ok_corr, "oracle": oracle, "what": what, "key": req if nontrivial else None, "cats": cats}


def judge_loop(req, impl, model, spec):
    j = judge_prog(req, impl, model, spec)
    j["cats"].append("reports-loop" if "WireLoop" in impl else "no-loop-reported")
    return j


def streams(tier, seed):
    if tier == "quick":
        return [
            {"name": "graph-exhaustive-4", "stream": "graph-exhaustive", "count": 4, "judge": judge},
            {"name": "graph-random", "stream": "graph-random", "count": 3000, "judge": judge},
            {"name": "prog-loop", "stream": "prog-loop", "count": 1500, "judge": judge_loop},
            {"name": "cli", "stream": "cli", "count": 200, "pygen": C19.pygen, "judge": C19.judge},
        ]
    out = [
        {"name": "prog-loop", "stream": "prog-loop", "count": 60000, "judge": judge_loop},
        {"name": "graph-exhaustive-4", "stream": "graph-exhaustive", "count": 4, "judge": judge},
        {"name": "graph-random", "stream": "graph-random", "count": 100000, "judge": judge},
    ]
    # all 2^25 digraphs on 5 nodes, in 64 slices
    total = 1 << 25
    step = total // 64
    for i in range(64):
        out.append({"name": "graph-5-slice-%02d" % i, "stream": "graph-slice", "count": 5,
                    "extra": (i * step, (i + 1) * step), "judge": judge})
    # what the user sees goes through the command line and the two files: the real binary on accepted, rejected, big, not-UTF-8, bare-CR files, good and malformed images, all options and TIMEOUT forms (as in C19)
    out.append({"name": "cli", "stream": "cli", "count": 5000, "pygen": C19.pygen, "judge": C19.judge})
    return out
