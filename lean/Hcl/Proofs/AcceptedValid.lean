import Hcl.Proofs.Accepted
import Hcl.Proofs.ActionsValid

/-! An accepted program's action list is `pre ++ fin` with `pre` a valid schedule in the sense of C01. -/

theorem Program_new_valid (fl : Flags) (cls : CharClass) (o : Orders) (stmts : List Stmt) (p : Program)
    (ho : OrdersOK o) (hwf : StmtsWF stmts)
    (h : Program.new fl cls o y86FixedFunctions stmts = .ok p) :
    ∃ (pre fin : List Action) (known : List String), p.actions = pre ++ fin ∧ ValidFrom [] pre ∧
      (∀ a ∈ fin, a.isPure = false) ∧ Sched known pre ∧ (∀ n ∈ known, n ∉ pre.map Action.out) ∧
      fin.Sublist (y86FixedFunctions.map (·.action)) := by
  obtain ⟨s1, constants, s3, known, hyp, hknown, hact, _, _, hac⟩ := Program_new_decompose fl cls o stmts p hwf h
  have hpure : ∀ f ∈ y86FixedFunctions, f.outWire.isSome = f.action.isPure := by
    intro f hf
    have := List.all_eq_true.mp y86Fixed_pure f hf
    simpa using this
  have hdisj : ∀ k ∈ s1.assignments.keys, k ∉ known := by
    intro k hk hkn
    rcases (hknown k).mp hkn with h1 | h1
    · simp only [bankOuts, List.mem_flatMap, List.mem_map] at h1
      obtain ⟨b, hb, sg, hsg, rfl⟩ := h1
      have := hyp.s3f.outsNA b hb sg hsg
      rw [(AMap.contains_iff_mem_keys _ _).mpr hk] at this
      cases this
    · obtain ⟨pr, hpr, rfl⟩ := List.mem_map.mp h1
      obtain ⟨v, hkeys, _, _⟩ := (mem_constPairs _ _ _).mp hpr
      have := hac pr.1 (hyp.s1inv.aAssigned _ hk)
      rw [(AMap.contains_iff_mem_keys _ _).mpr hkeys] at this
      cases this
  obtain ⟨pre, fin, h1, h2, h3, h4, h5, _, h7⟩ := assignmentsToActions_valid fl o s1.assignments (finalWires s1 constants s3) known
    y86FixedFunctions s1.declared constants p.actions ho y86Fixed_table hyp.s1inv.aKeys hpure hdisj hact
  exact ⟨pre, fin, known, h1, h2, h3, h4, h5, h7⟩
