import Hcl.Proofs.LexSpans
open Lexer

/-! Comments are skipped: they yield no token and leave what follows them untouched. -/

namespace Lexer

theorem spanWhile_append_stop (f : Char → Bool) : ∀ (a : List Char) (c : Char) (t : List Char),
    (∀ x ∈ a, f x = true) → f c = false → spanWhile f (a ++ c :: t) = (a, c :: t)
  | [], c, t, _, hc => by simp [spanWhile, hc]
  | x :: a, c, t, ha, hc => by
    have hx : f x = true := ha x List.mem_cons_self
    rw [List.cons_append, spanWhile]
    simp only [hx, if_true]
    rw [spanWhile_append_stop f a c t (fun y hy => ha y (List.mem_cons_of_mem _ hy)) hc]

/-- the text has no `*/` in it -/
def NoClose (a : List Char) : Prop := ∀ p q, a ≠ p ++ '*' :: '/' :: q

theorem NoClose.suffix {p q : List Char} (h : NoClose (p ++ '*' :: q)) : NoClose q := by
  intro p' q' heq
  apply h (p ++ '*' :: p') q'
  rw [heq]; simp

/-- a list splits at its first `*` -/
theorem split_first_star : ∀ (a : List Char), (∀ x ∈ a, (x != '*') = true) ∨
    ∃ p q, a = p ++ '*' :: q ∧ ∀ x ∈ p, (x != '*') = true
  | [] => Or.inl (by intro x hx; cases hx)
  | c :: rest => by
    by_cases hc : c = '*'
    · subst hc; exact Or.inr ⟨[], rest, rfl, by intro x hx; cases hx⟩
    · rcases split_first_star rest with h | ⟨p, q, hpq, hp⟩
      · left
        intro x hx
        rcases List.mem_cons.mp hx with rfl | h'
        · simpa using hc
        · exact h x h'
      · right
        refine ⟨c :: p, q, by rw [hpq]; rfl, ?_⟩
        intro x hx
        rcases List.mem_cons.mp hx with rfl | h'
        · simpa using hc
        · exact hp x h'

/-- **a block comment is skipped up to its first `*/`**: scanning from the `*` that opens it -/
theorem skipBlock_skips : ∀ (n : Nat) (a : List Char) (rest : List Char) (fuel off : Nat), a.length = n → NoClose a →
    a.length < fuel → skipBlock fuel (a ++ '*' :: '/' :: rest) off = some (rest, off + sizeOf' a + 2) := by
  intro n
  induction n using Nat.strongRecOn with
  | _ n ih =>
    intro a rest fuel off hlen hnc hfuel
    obtain ⟨fuel', rfl⟩ : ∃ f', fuel = f' + 1 := ⟨fuel - 1, by omega⟩
    have hstar : ('*' != '*') = false := by decide
    rcases split_first_star a with hall | ⟨p, q, hpq, hp⟩
    · -- no star inside: the closing one is the first
      rw [skipBlock, spanWhile_append_stop _ a '*' ('/' :: rest) hall hstar]
      rfl
    · subst hpq
      have hq : NoClose q := hnc.suffix
      rw [skipBlock, List.append_assoc, List.cons_append,
        spanWhile_append_stop _ p '*' (q ++ '*' :: '/' :: rest) hp hstar]
      simp only
      have hs1 : size '*' = 1 := by decide
      cases q with
      | nil =>
        simp only [List.nil_append]
        have := ih 0 (by simp at hlen; omega) [] rest fuel' (off + sizeOf' p + 1) rfl (by intro p' q' h; cases p' <;> simp at h)
          (by simp at hfuel ⊢; omega)
        simp only [List.nil_append, sizeOf'_nil] at this
        rw [this, sizeOf'_append, sizeOf'_cons, hs1, sizeOf'_nil]
        simp only [Nat.add_zero, Nat.add_assoc]
        rfl
      | cons c q' =>
        have hc : c ≠ '/' := by
          intro hc; subst hc
          exact hnc p q' rfl
        simp only [List.cons_append]
        split
        · rename_i heq; simp only [List.cons.injEq] at heq; exact absurd heq.1 hc
        · have := ih (c :: q').length (by simp at hlen ⊢; omega) (c :: q') rest fuel' (off + sizeOf' p + 1) rfl hq
            (by simp at hfuel ⊢; omega)
          rw [List.cons_append] at this
          rw [this, sizeOf'_append, sizeOf'_cons (c := '*'), hs1]
          congr 2; omega
end Lexer

namespace Lexer

/-- the classification of `/` and `#` that the lexer relies on (Unicode: neither is white space, a letter or a digit) -/
structure PunctCls (cls : CharCls) : Prop where
  slashW : cls.isWhitespace '/' = false
  slashA : cls.isAlphabetic '/' = false
  hashW : cls.isWhitespace '#' = false
  hashA : cls.isAlphabetic '#' = false

/-- **a block comment yields no token and lexing goes on right after its `*/`** -/
theorem lexStep_block_comment (cls : CharCls) (hcls : PunctCls cls) (total : Nat) (body rest : List Char) (off : Nat)
    (hnc : NoClose ('*' :: body)) :
    lexStep cls total ('/' :: '*' :: (body ++ '*' :: '/' :: rest)) off = .more [] rest (off + 4 + sizeOf' body) := by
  have h1 : size '/' = 1 := by decide
  have h2 : size '*' = 1 := by decide
  have hd : isDec '/' = false := by decide
  simp only [lexStep, hcls.slashW, hcls.slashA, hd, Bool.false_eq_true, if_false, Bool.or_false,
    show ('/' == '_') = false by decide]
  unfold punctStep
  simp only [show ('/' == '#') = false by decide, show ('/' == '/') = true by decide, Bool.false_eq_true, if_false, if_true]
  unfold slashStep
  have hsk := skipBlock_skips ('*' :: body).length ('*' :: body) rest (('*' :: (body ++ '*' :: '/' :: rest)).length + 1)
    (off + size '/') rfl hnc (by simp; omega)
  rw [List.cons_append] at hsk
  simp only [hsk]
  rw [sizeOf'_cons, h1, h2]
  congr 1
  omega

/-- **a `#` comment yields no token and lexing goes on at the end of the line** -/
theorem lexStep_hash_comment (cls : CharCls) (hcls : PunctCls cls) (total : Nat) (body : List Char) (nl : Char) (rest : List Char)
    (off : Nat) (hbody : ∀ c ∈ body, c ≠ '\n' ∧ c ≠ '\r') (hnl : nl = '\n' ∨ nl = '\r') :
    lexStep cls total ('#' :: (body ++ nl :: rest)) off = .more [] (nl :: rest) (off + 1 + sizeOf' body) := by
  have h1 : size '#' = 1 := by decide
  have hd : isDec '#' = false := by decide
  simp only [lexStep, hcls.hashW, hcls.hashA, hd, Bool.false_eq_true, if_false, Bool.or_false,
    show ('#' == '_') = false by decide]
  unfold punctStep
  simp only [show ('#' == '#') = true by decide, if_true]
  unfold lineCommentStep
  have hsp : spanWhile (fun d => d != '\n' && d != '\r') (body ++ nl :: rest) = (body, nl :: rest) := by
    apply spanWhile_append_stop
    · intro x hx
      have := hbody x hx
      simp [this.1, this.2]
    · rcases hnl with rfl | rfl <;> decide
  rw [hsp]
  simp only [h1]

/-- a `#` comment that runs to the end of the input -/
theorem lexStep_hash_comment_eof (cls : CharCls) (hcls : PunctCls cls) (total : Nat) (body : List Char) (off : Nat)
    (hbody : ∀ c ∈ body, c ≠ '\n' ∧ c ≠ '\r') :
    lexStep cls total ('#' :: body) off = .more [] [] (off + 1 + sizeOf' body) := by
  have h1 : size '#' = 1 := by decide
  have hd : isDec '#' = false := by decide
  simp only [lexStep, hcls.hashW, hcls.hashA, hd, Bool.false_eq_true, if_false, Bool.or_false,
    show ('#' == '_') = false by decide]
  unfold punctStep
  simp only [show ('#' == '#') = true by decide, if_true]
  unfold lineCommentStep
  rw [spanWhile_all _ body (by intro x hx; have := hbody x hx; simp [this.1, this.2])]
  simp only [h1]

/-- **a `//` comment**, likewise -/
theorem lexStep_slash_comment (cls : CharCls) (hcls : PunctCls cls) (total : Nat) (body : List Char) (nl : Char) (rest : List Char)
    (off : Nat) (hbody : ∀ c ∈ body, c ≠ '\n' ∧ c ≠ '\r') (hnl : nl = '\n' ∨ nl = '\r') :
    lexStep cls total ('/' :: '/' :: (body ++ nl :: rest)) off = .more [] (nl :: rest) (off + 2 + sizeOf' body) := by
  have h1 : size '/' = 1 := by decide
  have hd : isDec '/' = false := by decide
  simp only [lexStep, hcls.slashW, hcls.slashA, hd, Bool.false_eq_true, if_false, Bool.or_false,
    show ('/' == '_') = false by decide]
  unfold punctStep
  simp only [show ('/' == '#') = false by decide, show ('/' == '/') = true by decide, Bool.false_eq_true, if_false, if_true]
  unfold slashStep
  unfold lineCommentStep
  have hsp : spanWhile (fun d => d != '\n' && d != '\r') ('/' :: (body ++ nl :: rest)) = ('/' :: body, nl :: rest) := by
    rw [← List.cons_append]
    apply spanWhile_append_stop
    · intro x hx
      rcases List.mem_cons.mp hx with rfl | hx'
      · decide
      · have := hbody x hx'
        simp [this.1, this.2]
    · rcases hnl with rfl | rfl <;> decide
  rw [hsp]
  simp only [sizeOf'_cons, h1]
  congr 1
  omega
end Lexer
