import Hcl.Util.SExp
import Hcl.Model.Step

/-! Decoding of the harness's S-expressions into the model's AST, and canonical result printing. -/

open SExp

def widthOf? : SExp → Option Width
  | .atom "u" => some .unlimited
  | .atom s => s.toNat?.map Width.bits
  | _ => none

def binOpOf? : String → Option BinOp
  | "add" => some .add | "sub" => some .sub | "mul" => some .mul | "div" => some .div
  | "or" => some .or | "xor" => some .xor | "and" => some .and
  | "eq" => some .eq | "ne" => some .ne | "le" => some .le | "ge" => some .ge | "lt" => some .lt | "gt" => some .gt
  | "land" => some .land | "lor" => some .lor | "shl" => some .shl | "shr" => some .shr
  | _ => none

def unOpOf? : String → Option UnOp
  | "plus" => some .plus | "neg" => some .neg | "compl" => some .compl | "not" => some .not
  | _ => none

partial def decodeEx : SExp → Option Ex
  | .list [.atom "c", _, _, .atom bits, w] => do
      let b ← bits.toNat?
      let w ← widthOf? w
      pure (.const ⟨b, w⟩)
  | .list [.atom "b", _, _, .atom op, l, r] => do
      pure (.bin (← binOpOf? op) (← decodeEx l) (← decodeEx r))
  | .list [.atom "u", _, _, .atom op, x] => do
      pure (.un (← unOpOf? op) (← decodeEx x))
  | .list (.atom "m" :: _ :: _ :: opts) => do
      let os ← opts.mapM fun o => match o with
        | .list [c, v] => do pure ((← decodeEx c), (← decodeEx v))
        | _ => none
      pure (.mux (Opts.ofList os))
  | .list [.atom "w", _, _, .atom n] => pure (.wire n)
  | .list [.atom "s", _, _, x, .atom lo, .atom hi] => do
      pure (.slice (← decodeEx x) (← lo.toNat?) (← hi.toNat?))
  | .list [.atom "k", _, _, l, r] => do pure (.concat (← decodeEx l) (← decodeEx r))
  | .list (.atom "i" :: _ :: _ :: x :: items) => do
      pure (.inSet (← decodeEx x) (Exs.ofList (← items.mapM decodeEx)))
  | _ => none

def decodeStmt : SExp → Option Stmt
  | .list (.atom "const" :: ds) => do
      let l ← ds.mapM fun d => match d with
        | .list [.atom n, _, _, e] => do pure (⟨n, ← decodeEx e⟩ : ConstDecl)
        | _ => none
      pure (.consts l)
  | .list (.atom "wire" :: ds) => do
      let l ← ds.mapM fun d => match d with
        | .list [.atom n, w, _, _] => do pure (⟨n, ← widthOf? w⟩ : WireDecl)
        | _ => none
      pure (.wires l)
  | .list (.atom "assign" :: as) => do
      let l ← as.mapM fun a => match a with
        | .list [_, _, .list names, e] => do
            let ns ← names.mapM fun n => match n with
              | .list [.atom s, _, _] => some s
              | _ => none
            pure (⟨ns, ← decodeEx e⟩ : Assignment)
        | _ => none
      pure (.assigns l)
  | .list (.atom "bank" :: .atom n :: _ :: _ :: _ :: _ :: regs) => do
      let l ← regs.mapM fun r => match r with
        | .list [.atom rn, w, _, _, e] => do pure (⟨rn, ← widthOf? w, ← decodeEx e⟩ : RegDecl)
        | _ => none
      pure (.bank ⟨n, l⟩)
  | _ => none

def decodeStmts : SExp → Option (List Stmt)
  | .list l => l.mapM decodeStmt
  | _ => none

def flagOf (l : List SExp) (i : Nat) : Bool :=
  match l[i]? with
  | some (.atom "1") => true
  | _ => false

def decodeFlags (l : List SExp) : Flags :=
  { strictBinary := flagOf l 0, strictBoolean := flagOf l 1, requireMuxDefault := flagOf l 2,
    disallowMultipleMuxDefault := flagOf l 3, disallowUnreachable := flagOf l 4 }

/-- `(cls (CODEPOINT lower upper) ...)`: classification of the non-ASCII characters of the input -/
def decodeCls (l : List SExp) : CharClass :=
  let tbl : List (Nat × Bool × Bool) := l.filterMap fun e => match e with
    | .list [.atom c, .atom lo, .atom up] => c.toNat?.map fun n => (n, lo == "1", up == "1")
    | _ => none
  { isLower := fun c => if c.toNat < 128 then ('a' ≤ c && c ≤ 'z') else
      match tbl.find? (fun t => t.1 == c.toNat) with | some t => t.2.1 | none => false,
    isUpper := fun c => if c.toNat < 128 then ('A' ≤ c && c ≤ 'Z') else
      match tbl.find? (fun t => t.1 == c.toNat) with | some t => t.2.2 | none => false }

/-! ### canonical printing -/

def showWidth : Width → String
  | .unlimited => "u"
  | .bits n => s!"{n}"

def sortStrings (l : List String) : List String := (l.toArray.qsort (· < ·)).toList

def sortByName {α} (l : List (String × α)) : List (String × α) := (l.toArray.qsort (fun a b => a.1 < b.1)).toList

def showValues (vals : AMap WireValue) : String :=
  ",".intercalate ((sortByName vals).map fun p => s!"{p.1}={p.2.bits}/{showWidth p.2.width}")

def showMem (m : Mem) : String := ",".intercalate (m.map fun p => s!"{p.1}:{p.2}")

def showState (s : State) : String :=
  "{" ++ showValues s.values ++ "|" ++ ",".intercalate (s.regs.map (fun (n : Nat) => s!"{n}")) ++ "|" ++ showMem s.mem ++ "|" ++
    (match s.lastStatus with | some n => s!"{n}" | none => "-") ++ "}"

def DKind.name (k : DKind) : String :=
  let s := (repr k).pretty
  (s.splitOn ".").getLast!

def showDiags (ds : List Diag) : String :=
  " ".intercalate (sortStrings (ds.map fun d => ":".intercalate (d.kind.name :: d.names)))

def showErr : Err → String
  | .fail (.panic m) => "panic(" ++ m ++ ")"
  | .runtimeMismatchedWidths => "RuntimeMismatchedWidths"
  | .noBitWidth => "NoBitWidth"
  | .undeclaredWireRead n => "UndeclaredWireRead:" ++ n
  | .divideByZero => "DivideByZero"
