import Hcl.Proofs.StepSound
import Hcl.Proofs.AMapLemmas

/-! `Program::initial_state`: it never fails on banks whose signals all have a default, and the value table it
    builds is well-typed and holds every bank signal and control signal. -/

structure BankReady (Γ : Ctx) (b : RegisterBank) : Prop where
  sig : ∀ sg ∈ b.signals, ∃ dv, b.defaults.get? sg.2.1 = some dv ∧ Γ sg.1 = some dv.width ∧ Γ sg.2.1 = some dv.width ∧
    dv.bits < dv.width.card
  stall : Γ b.stall = some (.bits 1)
  bubble : Γ b.bubble = some (.bits 1)

theorem contains_insert_mono (vals : AMap WireValue) (k : String) (v : WireValue) (n : String)
    (h : vals.contains n = true) : (vals.insert k v).contains n = true := by
  rw [AMap.contains_insert]; simp [h]

theorem contains_insert_self (vals : AMap WireValue) (k : String) (v : WireValue) : (vals.insert k v).contains k = true := by
  rw [AMap.contains_insert]; simp

def sigStep (bank : RegisterBank) (vals : AMap WireValue) (sig : String × String × Width) : E (AMap WireValue) :=
  match bank.defaults.get? sig.2.1 with
  | some v => pure ((vals.insert sig.1 v).insert sig.2.1 v)
  | none => throw (.fail (.panic "unwrap on missing default"))

theorem signals_fold_ok (Γ : Ctx) (bank : RegisterBank) : ∀ (sigs : List (String × String × Width)) (vals : AMap WireValue),
    (∀ sg ∈ sigs, ∃ dv, bank.defaults.get? sg.2.1 = some dv ∧ Γ sg.1 = some dv.width ∧ Γ sg.2.1 = some dv.width ∧
      dv.bits < dv.width.card) →
    ValsOK Γ vals →
    ∃ vals', sigs.foldlM (sigStep bank) vals = .ok vals' ∧ ValsOK Γ vals' ∧
      (∀ n, vals.contains n = true → vals'.contains n = true) ∧
      (∀ sg ∈ sigs, vals'.contains sg.1 = true ∧ vals'.contains sg.2.1 = true)
  | [], vals, _, hv => ⟨vals, rfl, hv, fun _ h => h, by simp⟩
  | sg :: rest, vals, hs, hv => by
    obtain ⟨dv, h1, h2, h3, h4⟩ := hs sg List.mem_cons_self
    have hv1 : ValsOK Γ ((vals.insert sg.1 dv).insert sg.2.1 dv) :=
      (hv.insert sg.1 dv h2 h4).insert sg.2.1 dv h3 h4
    obtain ⟨vals', g1, g2, g3, g4⟩ := signals_fold_ok Γ bank rest _ (fun x hx => hs x (List.mem_cons_of_mem _ hx)) hv1
    refine ⟨vals', ?_, g2, ?_, ?_⟩
    · simp only [List.foldlM_cons, sigStep, h1, bind, Except.bind, pure, Except.pure]
      exact g1
    · intro n hn
      exact g3 n (contains_insert_mono _ _ _ _ (contains_insert_mono _ _ _ _ hn))
    · intro x hx
      rcases List.mem_cons.mp hx with h | h
      · subst h
        exact ⟨g3 _ (contains_insert_mono _ _ _ _ (contains_insert_self _ _ _)), g3 _ (contains_insert_self _ _ _)⟩
      · exact g4 x h

def bankStep (vals : AMap WireValue) (bank : RegisterBank) : E (AMap WireValue) := do
  let vals ← bank.signals.foldlM (sigStep bank) vals
  pure ((vals.insert bank.bubble ⟨0, .bits 1⟩).insert bank.stall ⟨0, .bits 1⟩)

theorem initialValues_eq (p : Program) : p.initialValues = p.banks.foldlM bankStep p.constants := rfl

theorem banks_fold_ok (Γ : Ctx) : ∀ (banks : List RegisterBank) (vals : AMap WireValue),
    (∀ b ∈ banks, BankReady Γ b) → ValsOK Γ vals →
    ∃ vals', banks.foldlM bankStep vals = .ok vals' ∧ ValsOK Γ vals' ∧
      (∀ n, vals.contains n = true → vals'.contains n = true) ∧
      (∀ b ∈ banks, (∀ sg ∈ b.signals, vals'.contains sg.1 = true ∧ vals'.contains sg.2.1 = true) ∧
        vals'.contains b.stall = true ∧ vals'.contains b.bubble = true)
  | [], vals, _, hv => ⟨vals, rfl, hv, fun _ h => h, by simp⟩
  | b :: rest, vals, hb, hv => by
    have hr := hb b List.mem_cons_self
    obtain ⟨v1, s1, s2, s3, s4⟩ := signals_fold_ok Γ b b.signals vals hr.sig hv
    have hone : (0 : Nat) < (Width.bits 1).card := by simp [Width.card]
    have hv2 : ValsOK Γ ((v1.insert b.bubble ⟨0, .bits 1⟩).insert b.stall ⟨0, .bits 1⟩) :=
      (s2.insert b.bubble ⟨0, .bits 1⟩ hr.bubble hone).insert b.stall ⟨0, .bits 1⟩ hr.stall hone
    obtain ⟨vals', g1, g2, g3, g4⟩ := banks_fold_ok Γ rest _ (fun x hx => hb x (List.mem_cons_of_mem _ hx)) hv2
    refine ⟨vals', ?_, g2, ?_, ?_⟩
    · simp only [List.foldlM_cons, bankStep, s1, bind, Except.bind, pure, Except.pure]
      exact g1
    · intro n hn
      exact g3 n (contains_insert_mono _ _ _ _ (contains_insert_mono _ _ _ _ (s3 n hn)))
    · intro x hx
      rcases List.mem_cons.mp hx with h | h
      · subst h
        refine ⟨fun sg hsg => ?_, g3 _ (contains_insert_self _ _ _), g3 _ (contains_insert_mono _ _ _ _ (contains_insert_self _ _ _))⟩
        have := s4 sg hsg
        exact ⟨g3 _ (contains_insert_mono _ _ _ _ (contains_insert_mono _ _ _ _ this.1)),
               g3 _ (contains_insert_mono _ _ _ _ (contains_insert_mono _ _ _ _ this.2))⟩
      · exact g4 x h
