import Hcl.Model.ParserStmtsSp
import Hcl.Proofs.ParseStmts
import Hcl.Proofs.ParseSpans
import Hcl.Proofs.LexRun
import Hcl.Proofs.ParseSound
open Parser Lexer

namespace Parser

/-! ## 1. Erasure: the spanned parser accepts what the span-less one accepts, and yields the same statements -/

/-- erase the declarations of a list result -/
def mapFst {α β : Type} (f : α → β) (p : List α × Toks) : List β × Toks := (p.1.map f, p.2)

theorem parseE_erase (ts : Toks) : (parseESp ts).map (fun r => (r.1.toEx, r.2.2.2)) = parseE ts := by
  unfold parseESp parseE
  cases parseTier (14 * ts.length + 40) 0 ts with
  | none => rfl
  | some r => obtain ⟨x, s, e, rest⟩ := r; rfl

theorem wireDeclsStep_erase (kS : Toks → Option (List SWireDecl × Toks)) (k : Toks → Option (List WireDecl × Toks))
    (h : ∀ r, (kS r).map (mapFst SWireDecl.erase) = k r) (ts : Toks) :
    (wireDeclsStepSp kS ts).map (mapFst SWireDecl.erase) = wireDeclsStep k ts := by
  unfold wireDeclsStepSp wireDeclsStep
  split
  · simp only
    cases smallConst _ with
    | none => rfl
    | some r =>
      obtain ⟨w, a, e, rest1⟩ := r
      cases rest1 with
      | nil => rfl
      | cons hd tl =>
        obtain ⟨a1, t, b1⟩ := hd
        cases t with
        | Comma =>
          simp only
          rw [← h tl]
          cases kS tl with
          | none => rfl
          | some p => rfl
        | _ => rfl
  · split
    · rename_i hno
      exact absurd rfl (hno _ _ _ _ _ _)
    · rfl

theorem parseWireDecls_erase : ∀ (f : Nat) (ts : Toks),
    (parseWireDeclsSp f ts).map (mapFst SWireDecl.erase) = parseWireDecls f ts
  | 0, _ => rfl
  | f + 1, ts => by
    unfold parseWireDeclsSp parseWireDecls
    exact wireDeclsStep_erase _ _ (parseWireDecls_erase f) ts

theorem wireDecls_erase (ts : Toks) : (wireDeclsSp ts).map (mapFst SWireDecl.erase) = wireDecls ts :=
  parseWireDecls_erase _ ts

theorem constDeclsStep_erase (kS : Toks → Option (List SConstDecl × Toks)) (k : Toks → Option (List ConstDecl × Toks))
    (h : ∀ r, (kS r).map (mapFst SConstDecl.erase) = k r) (ts : Toks) :
    (constDeclsStepSp kS ts).map (mapFst SConstDecl.erase) = constDeclsStep k ts := by
  unfold constDeclsStepSp constDeclsStep
  split
  · simp only
    rename_i rest
    rw [← parseE_erase rest]
    cases parseESp rest with
    | none => rfl
    | some r =>
      obtain ⟨v, a, e, rest1⟩ := r
      cases rest1 with
      | nil => rfl
      | cons hd tl =>
        obtain ⟨a1, t, b1⟩ := hd
        cases t with
        | Comma =>
          simp only [Option.map_some]
          rw [← h tl]
          cases kS tl with
          | none => rfl
          | some p => rfl
        | _ => rfl
  · split
    · rename_i hno
      exact absurd rfl (hno _ _ _ _ _ _)
    · rfl

theorem parseConstDecls_erase : ∀ (f : Nat) (ts : Toks),
    (parseConstDeclsSp f ts).map (mapFst SConstDecl.erase) = parseConstDecls f ts
  | 0, _ => rfl
  | f + 1, ts => by
    unfold parseConstDeclsSp parseConstDecls
    exact constDeclsStep_erase _ _ (parseConstDecls_erase f) ts

theorem constDecls_erase (ts : Toks) : (constDeclsSp ts).map (mapFst SConstDecl.erase) = constDecls ts :=
  parseConstDecls_erase _ ts

theorem parseTargets_erase (ts : Toks) :
    ((parseTargetsSp ts).1.map (·.1), (parseTargetsSp ts).2) = parseTargets ts := by
  fun_induction parseTargets ts
  · rename_i r ih
    unfold parseTargetsSp
    simp only [List.map_cons]
    have hr : r = parseTargets _ := rfl
    rw [← hr] at ih
    rw [← ih]
  · rename_i hno
    unfold parseTargetsSp
    split
    · exact absurd rfl (hno _ _ _ _ _ _)
    · rfl

/-- erase the value of a single-item result -/
def mapFst1 {α β : Type} (f : α → β) (p : α × Toks) : β × Toks := (f p.1, p.2)

theorem parseAssignment_erase (ts : Toks) :
    (parseAssignmentSp ts).map (mapFst1 SAssignment.erase) = parseAssignment ts := by
  unfold parseAssignmentSp parseAssignment
  rw [← parseTargets_erase ts]
  cases parseTargetsSp ts with
  | mk l rest =>
    cases l with
    | nil => rfl
    | cons n more =>
      simp only [List.map_cons]
      rw [← parseE_erase rest]
      cases parseESp rest with
      | none => rfl
      | some r => obtain ⟨v, a, e, rest1⟩ := r; rfl

theorem assignsStep_erase (kS : Toks → Option (List SAssignment × Toks)) (k : Toks → Option (List Assignment × Toks))
    (h : ∀ r, (kS r).map (mapFst SAssignment.erase) = k r) (ts : Toks) :
    (assignsStepSp kS ts).map (mapFst SAssignment.erase) = assignsStep k ts := by
  unfold assignsStepSp assignsStep
  rw [← parseAssignment_erase ts]
  cases parseAssignmentSp ts with
  | none => rfl
  | some r =>
    obtain ⟨a, rest1⟩ := r
    cases rest1 with
    | nil => rfl
    | cons hd tl =>
      obtain ⟨a1, t, b1⟩ := hd
      cases t with
      | Comma =>
        cases tl with
        | nil => rfl
        | cons hd2 tl2 =>
          obtain ⟨a2, t2, b2⟩ := hd2
          cases t2 with
          | Identifier name =>
            simp only [Option.map_some, mapFst1]
            rw [← h]
            cases kS ((a2, Tok.Identifier name, b2) :: tl2) with
            | none => rfl
            | some p => rfl
          | _ => rfl
      | _ => rfl

theorem parseAssigns_erase : ∀ (f : Nat) (ts : Toks),
    (parseAssignsSp f ts).map (mapFst SAssignment.erase) = parseAssigns f ts
  | 0, _ => rfl
  | f + 1, ts => by
    unfold parseAssignsSp parseAssigns
    exact assignsStep_erase _ _ (parseAssigns_erase f) ts

theorem assigns_erase (ts : Toks) : (assignsSp ts).map (mapFst SAssignment.erase) = assigns ts :=
  parseAssigns_erase _ ts

theorem regDeclsStep_erase (kS : Toks → Option (List SRegDecl × Toks)) (k : Toks → Option (List RegDecl × Toks))
    (h : ∀ r, (kS r).map (mapFst SRegDecl.erase) = k r) (ts : Toks) :
    (regDeclsStepSp kS ts).map (mapFst SRegDecl.erase) = regDeclsStep k ts := by
  unfold regDeclsStepSp regDeclsStep
  split
  · simp only
    cases smallConst _ with
    | none => rfl
    | some r =>
      obtain ⟨w, a, e, rest1⟩ := r
      simp only
      cases expect Tok.Assign rest1 with
      | none => rfl
      | some r2 =>
        obtain ⟨a2, b2, rest2⟩ := r2
        simp only
        rw [← parseE_erase rest2]
        cases parseESp rest2 with
        | none => rfl
        | some r3 =>
          obtain ⟨v, a3, e3, rest3⟩ := r3
          cases rest3 with
          | nil => rfl
          | cons hd tl =>
            obtain ⟨a1, t, b1⟩ := hd
            cases t with
            | Semicolon =>
              simp only [Option.map_some]
              rw [← h tl]
              cases kS tl with
              | none => rfl
              | some p => rfl
            | _ => rfl
  · split
    · rename_i hno
      exact absurd rfl (hno _ _ _ _ _ _)
    · rfl

theorem parseRegDecls_erase : ∀ (f : Nat) (ts : Toks),
    (parseRegDeclsSp f ts).map (mapFst SRegDecl.erase) = parseRegDecls f ts
  | 0, _ => rfl
  | f + 1, ts => by
    unfold parseRegDeclsSp parseRegDecls
    exact regDeclsStep_erase _ _ (parseRegDecls_erase f) ts

theorem regDecls_erase (ts : Toks) : (regDeclsSp ts).map (mapFst SRegDecl.erase) = regDecls ts :=
  parseRegDecls_erase _ ts

theorem parseBank_erase (start : Nat) (ts : Toks) :
    (parseBankSp start ts).map (mapFst1 SBankDecl.erase) = parseBank ts := by
  unfold parseBankSp parseBank
  split
  · simp only
    rename_i rest
    rw [← regDecls_erase rest]
    cases regDeclsSp rest with
    | none => rfl
    | some r =>
      obtain ⟨regs, rest1⟩ := r
      simp only [Option.map_some, mapFst]
      cases expect Tok.CloseBrace rest1 with
      | none => rfl
      | some r2 => obtain ⟨a2, e, rest2⟩ := r2; rfl
  · split
    · rename_i hno
      exact absurd rfl (hno _ _ _ _ _ _)
    · rfl

theorem parseNeedSemi_erase (ts : Toks) :
    (parseNeedSemiSp ts).map (mapFst1 SStmt.erase) = parseNeedSemi ts := by
  cases ts with
  | nil => rfl
  | cons hd rest =>
    obtain ⟨s, t, e⟩ := hd
    cases t with
    | Wire =>
      unfold parseNeedSemiSp parseNeedSemi
      simp only
      rw [← wireDecls_erase rest]
      cases wireDeclsSp rest with
      | none => rfl
      | some r => rfl
    | Const =>
      unfold parseNeedSemiSp parseNeedSemi
      simp only
      rw [← constDecls_erase rest]
      cases constDeclsSp rest with
      | none => rfl
      | some r => rfl
    | Identifier name =>
      unfold parseNeedSemiSp parseNeedSemi
      simp only
      rw [← assigns_erase]
      cases assignsSp ((s, Tok.Identifier name, e) :: rest) with
      | none => rfl
      | some r => rfl
    | _ => rfl

/-- the fourth production of `stmtsStepSp`: a statement that needs a semicolon -/
def needItemSp (kS : Toks → Option (List SStmt)) (started : Bool) (ts : Toks) : Option (List SStmt) :=
  match parseNeedSemiSp ts with
  | none => none
  | some (st, rest1) =>
    match rest1 with
    | (_, .Semicolon, _) :: rest2 =>
      match kS rest2 with
      | none => none
      | some more => some (st :: more)
    | [] => if started then some [st] else none
    | _ => none

/-- the fourth production of `stmtsStep` -/
def needItem (k : Toks → Option (List Stmt)) (started : Bool) (ts : Toks) : Option (List Stmt) :=
  match parseNeedSemi ts with
  | none => none
  | some (st, rest1) =>
    match rest1 with
    | (_, .Semicolon, _) :: rest2 =>
      match k rest2 with
      | none => none
      | some more => some (st :: more)
    | [] => if started then some [st] else none
    | _ => none

theorem stmtsStepSp_default (kS : Toks → Option (List SStmt)) (started : Bool) (s e : Nat) (t : Tok) (rest : Toks)
    (h1 : t ≠ .Semicolon) (h2 : t ≠ .Register) :
    stmtsStepSp kS started ((s, t, e) :: rest) = needItemSp kS started ((s, t, e) :: rest) := by
  cases t <;> first | rfl | exact absurd rfl h1 | exact absurd rfl h2

theorem stmtsStep_default (k : Toks → Option (List Stmt)) (started : Bool) (s e : Nat) (t : Tok) (rest : Toks)
    (h1 : t ≠ .Semicolon) (h2 : t ≠ .Register) :
    stmtsStep k started ((s, t, e) :: rest) = needItem k started ((s, t, e) :: rest) := by
  cases t <;> first | rfl | exact absurd rfl h1 | exact absurd rfl h2

theorem needItem_erase (kS : Toks → Option (List SStmt)) (k : Toks → Option (List Stmt))
    (h : ∀ r, (kS r).map (List.map SStmt.erase) = k r) (started : Bool) (ts : Toks) :
    (needItemSp kS started ts).map (List.map SStmt.erase) = needItem k started ts := by
  unfold needItemSp needItem
  rw [← parseNeedSemi_erase ts]
  cases parseNeedSemiSp ts with
  | none => rfl
  | some r =>
    obtain ⟨st, rest1⟩ := r
    cases rest1 with
    | nil => cases started <;> rfl
    | cons hd tl =>
      obtain ⟨a1, t, b1⟩ := hd
      cases t with
      | Semicolon =>
        simp only [Option.map_some, mapFst1]
        rw [← h tl]
        cases kS tl with
        | none => rfl
        | some p => rfl
      | _ => rfl

theorem stmtsStep_erase (kS : Toks → Option (List SStmt)) (k : Toks → Option (List Stmt))
    (h : ∀ r, (kS r).map (List.map SStmt.erase) = k r) (started : Bool) (ts : Toks) :
    (stmtsStepSp kS started ts).map (List.map SStmt.erase) = stmtsStep k started ts := by
  cases ts with
  | nil => cases started <;> rfl
  | cons hd rest =>
    obtain ⟨s, t, e⟩ := hd
    by_cases h1 : t = .Semicolon
    · subst h1
      unfold stmtsStepSp stmtsStep
      cases started
      · rfl
      · exact h rest
    · by_cases h2 : t = .Register
      · subst h2
        unfold stmtsStepSp stmtsStep
        simp only
        rw [← parseBank_erase s rest]
        cases parseBankSp s rest with
        | none => rfl
        | some r =>
          obtain ⟨b, rest1⟩ := r
          simp only [Option.map_some, mapFst1]
          rw [← h rest1]
          cases kS rest1 with
          | none => rfl
          | some more => rfl
      · rw [stmtsStepSp_default kS started s e t rest h1 h2, stmtsStep_default k started s e t rest h1 h2]
        exact needItem_erase kS k h started _

theorem parseStmtsLoop_erase : ∀ (f : Nat) (started : Bool) (ts : Toks),
    (parseStmtsLoopSp f started ts).map (List.map SStmt.erase) = parseStmtsLoop f started ts
  | 0, _, _ => rfl
  | f + 1, started, ts => by
    unfold parseStmtsLoopSp parseStmtsLoop
    exact stmtsStep_erase _ _ (parseStmtsLoop_erase f true) started ts

/-- **Erasure, statements**: on every token list and with every fuel, the spanned statement parser succeeds exactly
    when the span-less one does, and forgetting the spans of its result gives the result of the span-less one. -/
theorem parseStmtsSp_erase (fuel : Nat) (ts : Toks) :
    (parseStmtsSp fuel ts).map (·.map SStmt.erase) = parseStmts fuel ts :=
  parseStmtsLoop_erase fuel false ts

/-- **Erasure, program** -/
theorem parseProgramSp_erase (cls : CharCls) (text : List Char) :
    (parseProgramSp cls text).map (·.map SStmt.erase) = parseProgram cls text := by
  unfold parseProgramSp parseProgram
  cases tokensOf (lex cls text) with
  | none => rfl
  | some ts => exact parseStmtsSp_erase _ ts

end Parser

/-! ## 2. Lexer: the span of an identifier token is the place of its name in the text -/

namespace Lexer

/-- the characters of `name` stand in `text` from byte offset `s` to byte offset `e`: the text is `pre ++ name ++ post`
    with `pre` of `s` bytes, and `e` is `s` plus the number of bytes of the name -/
def NameAt (text : List Char) (s : Nat) (name : String) (e : Nat) : Prop :=
  ∃ pre post, text = pre ++ name.toList ++ post ∧ sizeOf' pre = s ∧ e = s + sizeOf' name.toList

/-- `Q` holds of the token if it is an identifier -/
def IdAt (Q : Nat → String → Nat → Prop) (s : Nat) (t : Tok) (e : Nat) : Prop := ∀ n, t = .Identifier n → Q s n e

def ItemsQ (Q : Nat → String → Nat → Prop) (items : List Item) : Prop := ∀ s t e, Item.tok s t e ∈ items → IdAt Q s t e

def StepQ (Q : Nat → String → Nat → Prop) : Step → Prop
  | .stop items => ItemsQ Q items
  | .more items _ _ => ItemsQ Q items

variable {Q : Nat → String → Nat → Prop}

theorem itemsQ_nil : ItemsQ Q [] := by
  intro s t e h; cases h

theorem itemsQ_err (x : LexErr) : ItemsQ Q [.err x] := by
  intro s t e h
  simp at h

theorem itemsQ_single (s : Nat) (t : Tok) (e : Nat) (h : IdAt Q s t e) : ItemsQ Q [.tok s t e] := by
  intro s' t' e' hm
  simp only [List.mem_cons, List.not_mem_nil, or_false, Item.tok.injEq] at hm
  obtain ⟨rfl, rfl, rfl⟩ := hm
  exact h

theorem itemsQ_append {a b : List Item} (ha : ItemsQ Q a) (hb : ItemsQ Q b) : ItemsQ Q (a ++ b) := by
  intro s t e hm
  rcases List.mem_append.mp hm with h | h
  · exact ha s t e h
  · exact hb s t e h

/-- a token that is not an identifier -/
def NotId (t : Tok) : Prop := ∀ n, t ≠ .Identifier n

theorem NotId.idAt {t : Tok} (h : NotId t) (s e : Nat) : IdAt Q s t e := fun n hn => absurd hn (h n)

theorem stepQ_simple (rest : List Char) (i next : Nat) (t : Tok) (h : NotId t) : StepQ Q (simpleStep rest i next t) := by
  unfold simpleStep StepQ
  exact itemsQ_single _ _ _ (h.idAt _ _)

theorem stepQ_choose (rest : List Char) (i next : Nat) (dflt : Tok) (opts : List (Char × Tok))
    (hd : NotId dflt) (ho : ∀ o ∈ opts, NotId o.2) : StepQ Q (chooseStep rest i next dflt opts) := by
  unfold chooseStep
  cases rest with
  | nil => exact itemsQ_single _ _ _ (hd.idAt _ _)
  | cons d rest2 =>
    simp only
    cases hf : opts.find? (fun o => o.1 == d) with
    | some o => exact itemsQ_single _ _ _ ((ho o (List.mem_of_find?_eq_some hf)).idAt _ _)
    | none => exact itemsQ_single _ _ _ (hd.idAt _ _)

theorem stepQ_lineComment (rest : List Char) (next : Nat) : StepQ Q (lineCommentStep rest next) := by
  unfold lineCommentStep
  cases spanWhile (fun d => d != '\n' && d != '\r') rest with
  | mk a b => exact itemsQ_nil

theorem stepQ_slash (rest : List Char) (i next : Nat) : StepQ Q (slashStep rest i next) := by
  unfold slashStep
  split
  · exact stepQ_lineComment _ next
  · split
    · exact itemsQ_nil
    · exact itemsQ_err _
  · exact stepQ_simple rest i next .Divide (fun n h => by cases h)

theorem stepQ_ite {p : Prop} [Decidable p] {a b : Step}
    (ha : StepQ Q a) (hb : StepQ Q b) : StepQ Q (if p then a else b) := by
  split <;> assumption

theorem stepQ_dot (rest : List Char) (i next : Nat) :
    StepQ Q (match (generalizing := false) rest with
      | '.' :: rest2 => .more [.tok i .DotDot (i + 2)] rest2 (next + 1)
      | _ => .stop [.err (.lexical i)]) := by
  split
  · exact itemsQ_single _ _ _ (fun n h => by cases h)
  · exact itemsQ_err _

theorem stepQ_punct (c : Char) (rest : List Char) (i next : Nat) : StepQ Q (punctStep c rest i next) := by
  unfold punctStep
  repeat' apply stepQ_ite
  all_goals first
    | exact stepQ_simple rest i next _ (fun n h => by cases h)
    | exact stepQ_lineComment rest next
    | exact stepQ_slash rest i next
    | exact stepQ_dot rest i next
    | exact itemsQ_err _
    | (apply stepQ_choose
       · exact (fun n h => by cases h)
       · intro o ho
         simp only [List.mem_cons, List.not_mem_nil, or_false] at ho
         first
           | (rcases ho with rfl | rfl <;> exact (fun n h => by cases h))
           | (subst ho; exact (fun n h => by cases h)))

/-- `handle_constant` yields a constant -/
theorem handleConstant_constant (i : Nat) (first : Char) (rest : List Char) (total : Nat) (s : Nat) (t : Tok) (e : Nat)
    (after : List Char) (off' : Nat) (h : handleConstant i first rest total = .ok ((s, t, e), after, off')) :
    ∃ v, t = .Constant v := by
  unfold handleConstant at h
  simp only at h
  repeat' split at h
  all_goals first
    | (simp only [Except.ok.injEq, Prod.mk.injEq] at h
       obtain ⟨⟨_, rfl, _⟩, _⟩ := h
       exact ⟨_, rfl⟩)
    | cases h

theorem keyword_identifier {w n : String} (h : keyword w = .Identifier n) : n = w := by
  unfold keyword at h
  split at h
  · cases h
  · split at h
    · cases h
    · split at h
      · cases h
      · split at h
        · cases h
        · cases h; rfl

/-- **one turn of the loop**: an identifier token it yields starts at the current offset, and the remaining input
    begins with exactly the characters of its name, whose bytes end where the token ends -/
theorem lexStep_names (cls : CharCls) (total : Nat) (cs : List Char) (off : Nat) :
    StepQ (fun s n e => s = off ∧ e = off + sizeOf' n.toList ∧ ∃ post, cs = n.toList ++ post) (lexStep cls total cs off) := by
  unfold lexStep
  cases cs with
  | nil => exact itemsQ_nil
  | cons c rest =>
    simp only
    split
    · exact itemsQ_nil
    · split
      · unfold identStep
        cases hsp : spanWhile (fun d => cls.isAlphanumeric d || d == '_') rest with
        | mk more after =>
          apply itemsQ_single
          intro n hn
          have hw := keyword_identifier hn
          subst hw
          refine ⟨rfl, ?_, after, ?_⟩
          · simp only [String.toList_ofList, sizeOf'_cons]; omega
          · rw [String.toList_ofList, spanWhile_split _ _ _ _ hsp]; rfl
      · split
        · unfold constantStep
          cases hcst : handleConstant off c rest total with
          | error e => exact itemsQ_err _
          | ok r =>
            obtain ⟨⟨s, t, e⟩, after, off'⟩ := r
            obtain ⟨v, rfl⟩ := handleConstant_constant off c rest total s t e after off' hcst
            exact itemsQ_single _ _ _ (fun n h => by cases h)
        · exact stepQ_punct c rest off _

theorem lexAll_names (cls : CharCls) (text : List Char) : ∀ (fuel : Nat) (cs : List Char) (off : Nat) (pre : List Char),
    text = pre ++ cs → sizeOf' pre = off → ItemsQ (NameAt text) (lexAll cls (sizeOf' text) fuel cs off)
  | 0, _, _, _, _, _ => itemsQ_err _
  | fuel + 1, cs, off, pre, htext, hoff => by
    unfold lexAll
    have hp : off + sizeOf' cs = sizeOf' text := by rw [htext, sizeOf'_append, hoff]
    have hq := lexStep_names cls (sizeOf' text) cs off
    have here : ∀ items, ItemsQ (fun s n e => s = off ∧ e = off + sizeOf' n.toList ∧ ∃ post, cs = n.toList ++ post) items →
        ItemsQ (NameAt text) items := by
      intro items hi s t e hm n hn
      obtain ⟨h1, h2, post, h3⟩ := hi s t e hm n hn
      refine ⟨pre, post, ?_, by omega, by omega⟩
      rw [htext, h3, List.append_assoc]
    have hok := lexStep_ok cls (sizeOf' text) cs off hp
    cases hs : lexStep cls (sizeOf' text) cs off with
    | stop items => rw [hs] at hq; exact here items hq
    | more items cs' off' =>
      rw [hs] at hq hok
      obtain ⟨p, hcs⟩ := lexStep_suffix cls _ cs off items cs' off' hs
      obtain ⟨_, hp', _, _⟩ := hok
      refine itemsQ_append (here items hq) (lexAll_names cls text fuel cs' off' (pre ++ p) ?_ ?_)
      · rw [htext, hcs, List.append_assoc]
      · rw [hcs, sizeOf'_append] at hp
        rw [sizeOf'_append]
        omega

/-- **The span of an identifier token is the place of its name**: for every token `Identifier name` that the lexer
    yields with the span `(s, e)`, the text is `pre ++ name ++ post` with `pre` exactly `s` bytes long, and `e - s` is the
    number of bytes of the name. -/
theorem identifier_span (cls : CharCls) (text : List Char) (s e : Nat) (name : String)
    (h : Item.tok s (.Identifier name) e ∈ lex cls text) : NameAt text s name e :=
  lexAll_names cls text _ text 0 [] rfl rfl s _ e h name rfl

end Lexer

/-! ## 3. Parser: the spans of the statements -/

namespace Parser

/-- a span is a non-empty range inside `[lo, hi]` -/
def SpanIn (lo hi : Nat) (sp : Span) : Prop := lo ≤ sp.1 ∧ sp.1 < sp.2 ∧ sp.2 ≤ hi

/-- the items of a list lie one after the other between `lo` and `hi`: there are cut points `lo = m₀ ≤ m₁ ≤ ... ≤ hi` such
    that the `i`-th item is good (`G`) within `[mᵢ, mᵢ₊₁]` -- so the items are in increasing order and do not overlap -/
def Chain {α : Type} (G : Nat → Nat → α → Prop) : Nat → Nat → List α → Prop
  | lo, hi, [] => lo ≤ hi
  | lo, hi, x :: rest => ∃ m, G lo m x ∧ Chain G m hi rest

section
variable (N : Nat → String → Nat → Prop)

/-- a wire declaration `name : width`: its span is a non-empty range within the bounds that BEGINS with the name (and
    goes on: the colon and the width follow) -/
def SWireDecl.Good (lo hi : Nat) (d : SWireDecl) : Prop :=
  SpanIn lo hi d.span ∧ ∃ ne, N d.span.1 d.name ne ∧ d.span.1 < ne ∧ ne < d.span.2

/-- a constant declaration `name = value`: `name_span` is a non-empty range within the bounds that holds exactly the
    name, and every span of the value lies after it, within the bounds -/
def SConstDecl.Good (lo hi : Nat) (d : SConstDecl) : Prop :=
  SpanIn lo hi d.nameSpan ∧ N d.nameSpan.1 d.name d.nameSpan.2 ∧ d.value.Within d.nameSpan.2 hi

/-- a target of an assignment: its span is a non-empty range within the bounds that holds exactly the name -/
def TargetGood (lo hi : Nat) (n : String × Span) : Prop := SpanIn lo hi n.2 ∧ N n.2.1 n.1 n.2.2

/-- an assignment `n₁ = ... = nₖ = value`: its span is a non-empty range within the bounds, there is at least one
    target, the span starts where the first target starts, the targets lie one after the other inside the span, each
    span holding exactly the name, and every span of the value lies after them, inside the assignment's span -/
def SAssignment.Good (lo hi : Nat) (a : SAssignment) : Prop :=
  SpanIn lo hi a.span ∧ a.names ≠ [] ∧ (∀ n ∈ a.names.head?, n.2.1 = a.span.1) ∧
  ∃ m, Chain (TargetGood N) a.span.1 m a.names ∧ a.value.Within m a.span.2

/-- a register declaration `name : width = default`: its span is a non-empty range within the bounds that begins with
    the name, and every span of the default value lies after the name, inside the declaration's span -/
def SRegDecl.Good (lo hi : Nat) (r : SRegDecl) : Prop :=
  SpanIn lo hi r.span ∧ ∃ ne, N r.span.1 r.name ne ∧ r.span.1 < ne ∧ r.default.Within ne r.span.2

/-- a register bank `register name { ... }`: its span is a non-empty range within the bounds; `name_span` lies strictly
    inside it (after the keyword), is non-empty and holds exactly the name; the register declarations lie one after
    the other behind the name and end strictly before the end of the bank's span (the closing brace) -/
def SBankDecl.Good (lo hi : Nat) (b : SBankDecl) : Prop :=
  SpanIn lo hi b.span ∧ b.span.1 < b.nameSpan.1 ∧ b.nameSpan.1 < b.nameSpan.2 ∧ N b.nameSpan.1 b.name b.nameSpan.2 ∧
  ∃ m, Chain (SRegDecl.Good N) b.nameSpan.2 m b.registers ∧ m < b.span.2

/-- a statement within `[lo, hi]`: its declarations / assignments lie one after the other within the bounds -/
def SStmt.Good (lo hi : Nat) : SStmt → Prop
  | .wires ds => Chain (SWireDecl.Good N) lo hi ds
  | .consts ds => Chain (SConstDecl.Good N) lo hi ds
  | .assigns as => Chain (SAssignment.Good N) lo hi as
  | .bank b => SBankDecl.Good N lo hi b

end

theorem SpanIn.mono_lo {lo hi lo' : Nat} {sp : Span} (h : SpanIn lo hi sp) (hl : lo' ≤ lo) : SpanIn lo' hi sp :=
  ⟨Nat.le_trans hl h.1, h.2.1, h.2.2⟩

theorem Chain.mono_lo {α : Type} {G : Nat → Nat → α → Prop}
    (hG : ∀ x lo lo' hi, G lo hi x → lo' ≤ lo → G lo' hi x) :
    ∀ {l : List α} {lo hi lo' : Nat}, Chain G lo hi l → lo' ≤ lo → Chain G lo' hi l
  | [], _, _, _, h, hl => Nat.le_trans hl h
  | _ :: _, _, _, _, ⟨m, g, c⟩, hl => ⟨m, hG _ _ _ _ g hl, c⟩

theorem Chain.le {α : Type} {G : Nat → Nat → α → Prop} (hG : ∀ x lo hi, G lo hi x → lo ≤ hi) :
    ∀ {l : List α} {lo hi : Nat}, Chain G lo hi l → lo ≤ hi
  | [], _, _, h => h
  | _ :: _, _, _, ⟨_, g, c⟩ => Nat.le_trans (hG _ _ _ g) (Chain.le hG c)

theorem SpanIn.le {lo hi : Nat} {sp : Span} (h : SpanIn lo hi sp) : lo ≤ hi := by
  have := h.1; have := h.2.1; have := h.2.2; omega

section
variable {N : Nat → String → Nat → Prop}

theorem SWireDecl.Good.mono_lo (x : SWireDecl) (lo lo' hi : Nat) (h : SWireDecl.Good N lo hi x) (hl : lo' ≤ lo) :
    SWireDecl.Good N lo' hi x := ⟨h.1.mono_lo hl, h.2⟩

theorem SConstDecl.Good.mono_lo (x : SConstDecl) (lo lo' hi : Nat) (h : SConstDecl.Good N lo hi x) (hl : lo' ≤ lo) :
    SConstDecl.Good N lo' hi x := ⟨h.1.mono_lo hl, h.2⟩

theorem TargetGood.mono_lo (x : String × Span) (lo lo' hi : Nat) (h : TargetGood N lo hi x) (hl : lo' ≤ lo) :
    TargetGood N lo' hi x := ⟨h.1.mono_lo hl, h.2⟩

theorem SAssignment.Good.mono_lo (x : SAssignment) (lo lo' hi : Nat) (h : SAssignment.Good N lo hi x) (hl : lo' ≤ lo) :
    SAssignment.Good N lo' hi x := ⟨h.1.mono_lo hl, h.2⟩

theorem SRegDecl.Good.mono_lo (x : SRegDecl) (lo lo' hi : Nat) (h : SRegDecl.Good N lo hi x) (hl : lo' ≤ lo) :
    SRegDecl.Good N lo' hi x := ⟨h.1.mono_lo hl, h.2⟩

theorem SBankDecl.Good.mono_lo (x : SBankDecl) (lo lo' hi : Nat) (h : SBankDecl.Good N lo hi x) (hl : lo' ≤ lo) :
    SBankDecl.Good N lo' hi x := ⟨h.1.mono_lo hl, h.2⟩

theorem SStmt.Good.mono_lo (x : SStmt) (lo lo' hi : Nat) (h : SStmt.Good N lo hi x) (hl : lo' ≤ lo) :
    SStmt.Good N lo' hi x := by
  cases x with
  | wires ds => exact Chain.mono_lo SWireDecl.Good.mono_lo h hl
  | consts ds => exact Chain.mono_lo SConstDecl.Good.mono_lo h hl
  | assigns as => exact Chain.mono_lo SAssignment.Good.mono_lo h hl
  | bank b => exact SBankDecl.Good.mono_lo b _ _ _ h hl

end

/-! ### the tokens: laid out in order, and every identifier token carries its name's place -/

section
variable (N : Nat → String → Nat → Prop)

/-- every identifier token of the list satisfies `N` (start, name, end) -/
def Named (ts : Toks) : Prop := ∀ s n e, (s, Tok.Identifier n, e) ∈ ts → N s n e

/-- the tokens are laid out from `lo` on within `T`, and the identifier tokens are named -/
structure LN (T lo : Nat) (ts : Toks) : Prop where
  laid : Laid T lo ts
  named : Named N ts

end

section
variable {N : Nat → String → Nat → Prop} {T : Nat}

theorem LN.cons {lo s e : Nat} {t : Tok} {rest : Toks} (h : LN N T lo ((s, t, e) :: rest)) :
    lo ≤ s ∧ s < e ∧ LN N T e rest :=
  ⟨h.laid.1, h.laid.2.1, h.laid.2.2, fun s' n e' hm => h.named s' n e' (List.mem_cons_of_mem _ hm)⟩

theorem LN.head_name {lo s e : Nat} {n : String} {rest : Toks} (h : LN N T lo ((s, .Identifier n, e) :: rest)) : N s n e :=
  h.named s n e List.mem_cons_self

theorem LN.of_append {lo lo' : Nat} {a rest : Toks} (h : LN N T lo (a ++ rest)) (hl : Laid T lo' rest) : LN N T lo' rest :=
  ⟨hl, fun s n e hm => h.named s n e (List.mem_append_right _ hm)⟩

theorem LN.le {lo : Nat} {ts : Toks} (h : LN N T lo ts) : lo ≤ T := h.laid.le

theorem expect_ln {t : Tok} {ts rest : Toks} {lo s e : Nat} (hl : LN N T lo ts) (h : expect t ts = some (s, e, rest)) :
    lo ≤ s ∧ s < e ∧ LN N T e rest := by
  have := expect_inv h
  subst this
  exact hl.cons

theorem smallConst_ln {ts rest : Toks} {lo v s e : Nat} (hl : LN N T lo ts) (h : smallConst ts = some (v, s, e, rest)) :
    lo ≤ s ∧ s < e ∧ LN N T e rest := by
  obtain ⟨c, hts, _, _⟩ := smallConst_inv h
  subst hts
  exact hl.cons

theorem parseESp_ln {ts rest : Toks} {lo s e : Nat} {x : PEx} (hl : LN N T lo ts)
    (h : parseESp ts = some (x, s, e, rest)) : lo ≤ s ∧ s < e ∧ x.Within s e ∧ LN N T e rest := by
  unfold parseESp at h
  obtain ⟨a1, a2, a3, a4⟩ := parseTier_spans _ _ _ _ _ _ _ _ hl.laid h
  obtain ⟨consumed, hc, _⟩ := parse_sound _ 0 _ _ _ _ _ (Nat.zero_le _) h
  rw [hc] at hl
  exact ⟨a1, a2, a3, hl.of_append a4⟩

end

/-! ### the lists of declarations -/

section
variable (N : Nat → String → Nat → Prop)

/-- a list result: the declarations lie one after the other from `lo` on, and the rest of the tokens follows them -/
def GoodL {α : Type} (G : Nat → Nat → α → Prop) (T lo : Nat) : Option (List α × Toks) → Prop
  | some (ds, rest) => ∃ hi, Chain G lo hi ds ∧ LN N T hi rest
  | none => True

/-- a single result: the item lies within `[lo, hi]` and the rest of the tokens follows from `hi` on -/
def Good1 {α : Type} (G : Nat → Nat → α → Prop) (T lo : Nat) : Option (α × Toks) → Prop
  | some (x, rest) => ∃ hi, G lo hi x ∧ LN N T hi rest
  | none => True

/-- a statement-list result: the statements lie one after the other from `lo` to the end of the text -/
def GoodS (T lo : Nat) : Option (List SStmt) → Prop
  | some ss => Chain (SStmt.Good N) lo T ss
  | none => True

end

section
variable {N : Nat → String → Nat → Prop} {T : Nat}

theorem wireDeclsStepSp_good (kS : Toks → Option (List SWireDecl × Toks))
    (hk : ∀ r lo, LN N T lo r → GoodL N (SWireDecl.Good N) T lo (kS r)) (ts : Toks) (lo : Nat) (hl : LN N T lo ts) :
    GoodL N (SWireDecl.Good N) T lo (wireDeclsStepSp kS ts) := by
  unfold wireDeclsStepSp
  split
  · rename_i s name e0 sc ec rest
    obtain ⟨h1, h2, hl1⟩ := hl.cons
    have hname := hl.head_name
    obtain ⟨h3, h4, hl2⟩ := hl1.cons
    cases hs : smallConst rest with
    | none => trivial
    | some r =>
      obtain ⟨w, sw, e, rest1⟩ := r
      obtain ⟨h5, h6, hl3⟩ := smallConst_ln hl2 hs
      simp only
      have hd : SWireDecl.Good N lo e ⟨name, .bits w, (s, e)⟩ := ⟨⟨h1, by simp only; omega, Nat.le_refl _⟩, e0, hname, h2, by simp only; omega⟩
      have hplain : GoodL N (SWireDecl.Good N) T lo (some ([⟨name, .bits w, (s, e)⟩], rest1)) :=
        ⟨e, ⟨e, hd, Nat.le_refl e⟩, hl3⟩
      cases rest1 with
      | nil => exact hplain
      | cons hd2 tl =>
        obtain ⟨a, t, b⟩ := hd2
        cases t with
        | Comma =>
          simp only
          obtain ⟨g1, g2, hl4⟩ := hl3.cons
          have hr := hk tl b hl4
          cases hk' : kS tl with
          | none => trivial
          | some p =>
            obtain ⟨ds, rest3⟩ := p
            rw [hk'] at hr
            obtain ⟨hi, hc, hl5⟩ := hr
            exact ⟨hi, ⟨e, hd, Chain.mono_lo SWireDecl.Good.mono_lo hc (by omega)⟩, hl5⟩
        | _ => exact hplain
  · exact ⟨lo, Nat.le_refl lo, hl⟩

theorem parseWireDeclsSp_good : ∀ (f : Nat) (ts : Toks) (lo : Nat), LN N T lo ts →
    GoodL N (SWireDecl.Good N) T lo (parseWireDeclsSp f ts)
  | 0, _, _, _ => trivial
  | f + 1, ts, lo, hl => by
    unfold parseWireDeclsSp
    exact wireDeclsStepSp_good _ (fun r lo' h => parseWireDeclsSp_good f r lo' h) ts lo hl

theorem constDeclsStepSp_good (kS : Toks → Option (List SConstDecl × Toks))
    (hk : ∀ r lo, LN N T lo r → GoodL N (SConstDecl.Good N) T lo (kS r)) (ts : Toks) (lo : Nat) (hl : LN N T lo ts) :
    GoodL N (SConstDecl.Good N) T lo (constDeclsStepSp kS ts) := by
  unfold constDeclsStepSp
  split
  · rename_i s name e0 sc ec rest
    obtain ⟨h1, h2, hl1⟩ := hl.cons
    have hname := hl.head_name
    obtain ⟨h3, h4, hl2⟩ := hl1.cons
    cases hs : parseESp rest with
    | none => trivial
    | some r =>
      obtain ⟨v, sv, e, rest1⟩ := r
      obtain ⟨h5, h6, hw, hl3⟩ := parseESp_ln hl2 hs
      simp only
      have hd : SConstDecl.Good N lo e ⟨name, (s, e0), v⟩ :=
        ⟨⟨h1, h2, by simp only; omega⟩, hname, hw.mono (by simp only; omega) (Nat.le_refl _)⟩
      have hplain : GoodL N (SConstDecl.Good N) T lo (some ([⟨name, (s, e0), v⟩], rest1)) :=
        ⟨e, ⟨e, hd, Nat.le_refl e⟩, hl3⟩
      cases rest1 with
      | nil => exact hplain
      | cons hd2 tl =>
        obtain ⟨a, t, b⟩ := hd2
        cases t with
        | Comma =>
          simp only
          obtain ⟨g1, g2, hl4⟩ := hl3.cons
          have hr := hk tl b hl4
          cases hk' : kS tl with
          | none => trivial
          | some p =>
            obtain ⟨ds, rest3⟩ := p
            rw [hk'] at hr
            obtain ⟨hi, hc, hl5⟩ := hr
            exact ⟨hi, ⟨e, hd, Chain.mono_lo SConstDecl.Good.mono_lo hc (by omega)⟩, hl5⟩
        | _ => exact hplain
  · exact ⟨lo, Nat.le_refl lo, hl⟩

theorem parseConstDeclsSp_good : ∀ (f : Nat) (ts : Toks) (lo : Nat), LN N T lo ts →
    GoodL N (SConstDecl.Good N) T lo (parseConstDeclsSp f ts)
  | 0, _, _, _ => trivial
  | f + 1, ts, lo, hl => by
    unfold parseConstDeclsSp
    exact constDeclsStepSp_good _ (fun r lo' h => parseConstDeclsSp_good f r lo' h) ts lo hl

/-- the targets lie one after the other, and the rest of the tokens follows them -/
theorem parseTargetsSp_good : ∀ (n : Nat) (ts : Toks) (lo : Nat), ts.length ≤ n → LN N T lo ts →
    ∃ m, Chain (TargetGood N) lo m (parseTargetsSp ts).1 ∧ LN N T m (parseTargetsSp ts).2
  | n, ts, lo, hn, hl => by
    unfold parseTargetsSp
    split
    · rename_i s name e0 sc ec rest
      obtain ⟨h1, h2, hl1⟩ := hl.cons
      have hname := hl.head_name
      obtain ⟨h3, h4, hl2⟩ := hl1.cons
      cases n with
      | zero => simp at hn
      | succ n' =>
        obtain ⟨m, hc, hl3⟩ := parseTargetsSp_good n' rest ec (by simp only [List.length_cons] at hn; omega) hl2
        exact ⟨m, ⟨e0, ⟨⟨h1, h2, Nat.le_refl _⟩, hname⟩, Chain.mono_lo TargetGood.mono_lo hc (by omega)⟩, hl3⟩
    · exact ⟨lo, Nat.le_refl lo, hl⟩

theorem parseAssignmentSp_good (ts : Toks) (lo : Nat) (hl : LN N T lo ts) :
    Good1 N (SAssignment.Good N) T lo (parseAssignmentSp ts) := by
  unfold parseAssignmentSp
  obtain ⟨m, hc, hl1⟩ := parseTargetsSp_good ts.length ts lo (Nat.le_refl _) hl
  cases hT : parseTargetsSp ts with
  | mk l rest =>
    rw [hT] at hc hl1
    simp only at hc hl1
    cases l with
    | nil => trivial
    | cons n more =>
      simp only
      cases hs : parseESp rest with
      | none => trivial
      | some r =>
        obtain ⟨v, sv, e, rest1⟩ := r
        obtain ⟨h5, h6, hw, hl3⟩ := parseESp_ln hl1 hs
        simp only
        obtain ⟨m1, hg, hc'⟩ := hc
        have hm1 : m1 ≤ m := Chain.le (fun _ _ _ g => g.1.le) hc'
        have a1 := hg.1.1; have a2 := hg.1.2.1; have a3 := hg.1.2.2
        refine ⟨e, ⟨⟨a1, by simp only; omega, Nat.le_refl _⟩, List.cons_ne_nil _ _, ?_, m, ?_, hw.mono h5 (Nat.le_refl _)⟩, hl3⟩
        · intro n' hn'
          simp only [List.head?_cons, Option.mem_def, Option.some.injEq] at hn'
          subst hn'
          rfl
        · exact ⟨m1, ⟨⟨Nat.le_refl _, a2, a3⟩, hg.2⟩, hc'⟩

theorem assignsStepSp_good (kS : Toks → Option (List SAssignment × Toks))
    (hk : ∀ r lo, LN N T lo r → GoodL N (SAssignment.Good N) T lo (kS r)) (ts : Toks) (lo : Nat) (hl : LN N T lo ts) :
    GoodL N (SAssignment.Good N) T lo (assignsStepSp kS ts) := by
  unfold assignsStepSp
  have ha := parseAssignmentSp_good ts lo hl
  cases hp : parseAssignmentSp ts with
  | none => trivial
  | some r =>
    obtain ⟨a, rest1⟩ := r
    rw [hp] at ha
    obtain ⟨e, hd, hl3⟩ := ha
    have hplain : ∀ rest', LN N T e rest' → GoodL N (SAssignment.Good N) T lo (some ([a], rest')) :=
      fun rest' h' => ⟨e, ⟨e, hd, Nat.le_refl e⟩, h'⟩
    cases rest1 with
    | nil => exact hplain _ hl3
    | cons hd2 tl =>
      obtain ⟨a1, t, b⟩ := hd2
      cases t with
      | Comma =>
        obtain ⟨g1, g2, hl4⟩ := hl3.cons
        have hcomma : GoodL N (SAssignment.Good N) T lo (some ([a], tl)) :=
          ⟨b, ⟨e, hd, (by show e ≤ b; omega)⟩, hl4⟩
        cases tl with
        | nil => exact hcomma
        | cons hd3 tl2 =>
          obtain ⟨a2, t2, b2⟩ := hd3
          cases t2 with
          | Identifier name =>
            simp only
            have hr := hk _ b hl4
            cases hk' : kS ((a2, Tok.Identifier name, b2) :: tl2) with
            | none => trivial
            | some p =>
              obtain ⟨ds, rest3⟩ := p
              rw [hk'] at hr
              obtain ⟨hi, hc, hl5⟩ := hr
              exact ⟨hi, ⟨e, hd, Chain.mono_lo SAssignment.Good.mono_lo hc (by omega)⟩, hl5⟩
          | _ => exact hcomma
      | _ => exact hplain _ hl3

theorem parseAssignsSp_good : ∀ (f : Nat) (ts : Toks) (lo : Nat), LN N T lo ts →
    GoodL N (SAssignment.Good N) T lo (parseAssignsSp f ts)
  | 0, _, _, _ => trivial
  | f + 1, ts, lo, hl => by
    unfold parseAssignsSp
    exact assignsStepSp_good _ (fun r lo' h => parseAssignsSp_good f r lo' h) ts lo hl

theorem regDeclsStepSp_good (kS : Toks → Option (List SRegDecl × Toks))
    (hk : ∀ r lo, LN N T lo r → GoodL N (SRegDecl.Good N) T lo (kS r)) (ts : Toks) (lo : Nat) (hl : LN N T lo ts) :
    GoodL N (SRegDecl.Good N) T lo (regDeclsStepSp kS ts) := by
  unfold regDeclsStepSp
  split
  · rename_i s name e0 sc ec rest
    obtain ⟨h1, h2, hl1⟩ := hl.cons
    have hname := hl.head_name
    obtain ⟨h3, h4, hl2⟩ := hl1.cons
    cases hs : smallConst rest with
    | none => trivial
    | some r =>
      obtain ⟨w, sw, ew, rest1⟩ := r
      obtain ⟨h5, h6, hl3⟩ := smallConst_ln hl2 hs
      simp only
      cases hx : expect Tok.Assign rest1 with
      | none => trivial
      | some r2 =>
        obtain ⟨sa, ea, rest2⟩ := r2
        obtain ⟨h7, h8, hl4⟩ := expect_ln hl3 hx
        simp only
        cases hv : parseESp rest2 with
        | none => trivial
        | some r3 =>
          obtain ⟨v, sv, e, rest3⟩ := r3
          obtain ⟨h9, h10, hw, hl5⟩ := parseESp_ln hl4 hv
          simp only
          have hd : SRegDecl.Good N lo e ⟨(s, e), name, .bits w, v⟩ :=
            ⟨⟨h1, by simp only; omega, Nat.le_refl _⟩, e0, hname, h2, hw.mono (by omega) (Nat.le_refl _)⟩
          have hplain : GoodL N (SRegDecl.Good N) T lo (some ([⟨(s, e), name, .bits w, v⟩], rest3)) :=
            ⟨e, ⟨e, hd, Nat.le_refl e⟩, hl5⟩
          cases rest3 with
          | nil => exact hplain
          | cons hd2 tl =>
            obtain ⟨a, t, b⟩ := hd2
            cases t with
            | Semicolon =>
              simp only
              obtain ⟨g1, g2, hl6⟩ := hl5.cons
              have hr := hk tl b hl6
              cases hk' : kS tl with
              | none => trivial
              | some p =>
                obtain ⟨ds, rest5⟩ := p
                rw [hk'] at hr
                obtain ⟨hi, hc, hl7⟩ := hr
                exact ⟨hi, ⟨e, hd, Chain.mono_lo SRegDecl.Good.mono_lo hc (by omega)⟩, hl7⟩
            | _ => exact hplain
  · exact ⟨lo, Nat.le_refl lo, hl⟩

theorem parseRegDeclsSp_good : ∀ (f : Nat) (ts : Toks) (lo : Nat), LN N T lo ts →
    GoodL N (SRegDecl.Good N) T lo (parseRegDeclsSp f ts)
  | 0, _, _, _ => trivial
  | f + 1, ts, lo, hl => by
    unfold parseRegDeclsSp
    exact regDeclsStepSp_good _ (fun r lo' h => parseRegDeclsSp_good f r lo' h) ts lo hl

/-- the bank after its keyword, which stands at `[start, ekw]` -/
theorem parseBankSp_good (start ekw : Nat) (ts : Toks) (lo : Nat) (h1 : lo ≤ start) (h2 : start < ekw)
    (hl : LN N T ekw ts) : Good1 N (SBankDecl.Good N) T lo (parseBankSp start ts) := by
  unfold parseBankSp
  split
  · rename_i ns name ne so eo rest
    obtain ⟨g1, g2, hl1⟩ := hl.cons
    have hname := hl.head_name
    obtain ⟨g3, g4, hl2⟩ := hl1.cons
    have hr := parseRegDeclsSp_good (rest.length + 1) rest eo hl2
    unfold regDeclsSp
    cases hk' : parseRegDeclsSp (rest.length + 1) rest with
    | none => trivial
    | some p =>
      obtain ⟨regs, rest1⟩ := p
      rw [hk'] at hr
      obtain ⟨m, hc, hl3⟩ := hr
      simp only
      cases hx : expect Tok.CloseBrace rest1 with
      | none => trivial
      | some r2 =>
        obtain ⟨sc, e, rest2⟩ := r2
        obtain ⟨g5, g6, hl4⟩ := expect_ln hl3 hx
        simp only
        have hm : eo ≤ m := Chain.le (fun _ _ _ g => g.1.le) hc
        exact ⟨e, ⟨⟨h1, by simp only; omega, Nat.le_refl _⟩, by simp only; omega, g2, hname, m,
          Chain.mono_lo SRegDecl.Good.mono_lo hc (by simp only; omega), by simp only; omega⟩, hl4⟩
  · trivial

theorem parseNeedSemiSp_good (ts : Toks) (lo : Nat) (hl : LN N T lo ts) :
    Good1 N (SStmt.Good N) T lo (parseNeedSemiSp ts) := by
  cases ts with
  | nil => trivial
  | cons hd rest =>
    obtain ⟨s, t, e⟩ := hd
    obtain ⟨h1, h2, hl1⟩ := hl.cons
    cases t with
    | Wire =>
      unfold parseNeedSemiSp wireDeclsSp
      simp only
      have hr := parseWireDeclsSp_good (rest.length + 1) rest e hl1
      cases hk' : parseWireDeclsSp (rest.length + 1) rest with
      | none => trivial
      | some p =>
        obtain ⟨ds, rest1⟩ := p
        rw [hk'] at hr
        obtain ⟨hi, hc, hl2⟩ := hr
        exact ⟨hi, Chain.mono_lo SWireDecl.Good.mono_lo hc (by omega), hl2⟩
    | Const =>
      unfold parseNeedSemiSp constDeclsSp
      simp only
      have hr := parseConstDeclsSp_good (rest.length + 1) rest e hl1
      cases hk' : parseConstDeclsSp (rest.length + 1) rest with
      | none => trivial
      | some p =>
        obtain ⟨ds, rest1⟩ := p
        rw [hk'] at hr
        obtain ⟨hi, hc, hl2⟩ := hr
        exact ⟨hi, Chain.mono_lo SConstDecl.Good.mono_lo hc (by omega), hl2⟩
    | Identifier name =>
      unfold parseNeedSemiSp assignsSp
      simp only
      have hr := parseAssignsSp_good (((s, Tok.Identifier name, e) :: rest).length + 1) _ lo hl
      cases hk' : parseAssignsSp (((s, Tok.Identifier name, e) :: rest).length + 1) ((s, Tok.Identifier name, e) :: rest) with
      | none => trivial
      | some p =>
        obtain ⟨ds, rest1⟩ := p
        rw [hk'] at hr
        obtain ⟨hi, hc, hl2⟩ := hr
        exact ⟨hi, hc, hl2⟩
    | _ => trivial

theorem needItemSp_good (kS : Toks → Option (List SStmt)) (hk : ∀ r lo, LN N T lo r → GoodS N T lo (kS r))
    (started : Bool) (ts : Toks) (lo : Nat) (hl : LN N T lo ts) : GoodS N T lo (needItemSp kS started ts) := by
  unfold needItemSp
  have ha := parseNeedSemiSp_good ts lo hl
  cases hp : parseNeedSemiSp ts with
  | none => trivial
  | some r =>
    obtain ⟨st, rest1⟩ := r
    rw [hp] at ha
    obtain ⟨hi, hd, hl1⟩ := ha
    cases rest1 with
    | nil =>
      cases started
      · trivial
      · exact ⟨hi, hd, hl1.le⟩
    | cons hd2 tl =>
      obtain ⟨a, t, b⟩ := hd2
      cases t with
      | Semicolon =>
        simp only
        obtain ⟨g1, g2, hl2⟩ := hl1.cons
        have hr := hk tl b hl2
        cases hk' : kS tl with
        | none => trivial
        | some more =>
          rw [hk'] at hr
          exact ⟨hi, hd, Chain.mono_lo SStmt.Good.mono_lo hr (by omega)⟩
      | _ => trivial

theorem stmtsStepSp_good (kS : Toks → Option (List SStmt)) (hk : ∀ r lo, LN N T lo r → GoodS N T lo (kS r))
    (started : Bool) (ts : Toks) (lo : Nat) (hl : LN N T lo ts) : GoodS N T lo (stmtsStepSp kS started ts) := by
  cases ts with
  | nil =>
    unfold stmtsStepSp
    cases started
    · trivial
    · exact hl.le
  | cons hd rest =>
    obtain ⟨s, t, e⟩ := hd
    obtain ⟨h1, h2, hl1⟩ := hl.cons
    by_cases hsemi : t = .Semicolon
    · subst hsemi
      unfold stmtsStepSp
      cases started
      · trivial
      · have hr := hk rest e hl1
        simp only [if_true]
        cases hk' : kS rest with
        | none => trivial
        | some more =>
          rw [hk'] at hr
          exact Chain.mono_lo SStmt.Good.mono_lo hr (by omega)
    · by_cases hreg : t = .Register
      · subst hreg
        unfold stmtsStepSp
        simp only
        have hb := parseBankSp_good (N := N) (T := T) s e rest lo h1 h2 hl1
        cases hp : parseBankSp s rest with
        | none => trivial
        | some r =>
          obtain ⟨b, rest1⟩ := r
          rw [hp] at hb
          obtain ⟨hi, hd, hl2⟩ := hb
          simp only
          have hr := hk rest1 hi hl2
          cases hk' : kS rest1 with
          | none => trivial
          | some more =>
            rw [hk'] at hr
            exact ⟨hi, hd, hr⟩
      · rw [stmtsStepSp_default kS started s e t rest hsemi hreg]
        exact needItemSp_good kS hk started _ lo hl

theorem parseStmtsLoopSp_good : ∀ (f : Nat) (started : Bool) (ts : Toks) (lo : Nat), LN N T lo ts →
    GoodS N T lo (parseStmtsLoopSp f started ts)
  | 0, _, _, _, _ => trivial
  | f + 1, started, ts, lo, hl => by
    unfold parseStmtsLoopSp
    exact stmtsStepSp_good _ (fun r lo' h => parseStmtsLoopSp_good f true r lo' h) started ts lo hl

/-- **Spans of the statements, on tokens**: when the tokens are laid out in order within `T` and every identifier token
    satisfies `N` (start, name, end), the statements the spanned parser answers lie one after the other between `lo` and
    `T`, each with the spans described by `SStmt.Good`. -/
theorem parseStmtsSp_spans (fuel : Nat) (ts : Toks) (lo : Nat) (ss : List SStmt) (hl : Laid T lo ts) (hn : Named N ts)
    (h : parseStmtsSp fuel ts = some ss) : Chain (SStmt.Good N) lo T ss := by
  have := parseStmtsLoopSp_good (N := N) (T := T) fuel false ts lo ⟨hl, hn⟩
  unfold parseStmtsSp at h
  rw [h] at this
  exact this

end

/-- the tokens handed to the parser are the lexer's items, spans included -/
theorem tokensOf_mem_pos : ∀ (items : List Item) (toks : Toks), tokensOf items = some toks →
    ∀ s t e, (s, t, e) ∈ toks → Item.tok s t e ∈ items
  | [], toks, h => by
    rw [tokensOf_nil] at h
    simp only [Option.some.injEq] at h
    subst h
    intro s t e ht; cases ht
  | .err x :: r, toks, h => by rw [tokensOf_err] at h; cases h
  | .tok s t e :: r, toks, h => by
    rw [tokensOf_tok] at h
    cases hr : tokensOf r with
    | none => rw [hr] at h; cases h
    | some ts =>
      rw [hr] at h
      simp only [Option.map_some, Option.some.injEq] at h
      subst h
      intro s' t' e' ht'
      rcases List.mem_cons.mp ht' with heq | ht'
      · cases heq; exact List.mem_cons_self
      · exact List.mem_cons_of_mem _ (tokensOf_mem_pos r ts hr s' t' e' ht')

/-- **Spans of the statements of a program**: when the spanned statement parser accepts a text, its statements lie one
    after the other within the text (in increasing order, not overlapping); every declaration / assignment / register /
    bank span is a non-empty byte range of the text that contains the spans of its parts, and every name span is the
    place where exactly that name stands in the text (`Lexer.NameAt`). -/
theorem parseProgramSp_spans (cls : CharCls) (text : List Char) (ss : List SStmt) (h : parseProgramSp cls text = some ss) :
    Chain (SStmt.Good (NameAt text)) 0 (sizeOf' text) ss := by
  unfold parseProgramSp at h
  cases hts : tokensOf (lex cls text) with
  | none => rw [hts] at h; cases h
  | some ts =>
    rw [hts] at h
    simp only at h
    have hl := tokensOf_laid _ _ 0 ts (lex_spans cls text) (Nat.zero_le _) hts
    have hn : Named (NameAt text) ts := fun s n e hm =>
      identifier_span cls text s e n (tokensOf_mem_pos _ _ hts s _ e hm)
    exact parseStmtsSp_spans _ ts 0 ss hl hn h

end Parser

/-! ## 4. Consequences in plain terms: the names, all spans inside the text, the order of the statements -/

namespace Parser

/-- the names a statement declares or assigns, each with the span the AST attributes to it.  `WireDecl` and
    `RegisterDecl` store no span for the name alone: their span BEGINS with the name, so the name's span is
    `(span.start, span.start + bytes of the name)`. -/
def SStmt.nameSpans : SStmt → List (String × Span)
  | .wires ds => ds.map fun d => (d.name, (d.span.1, d.span.1 + sizeOf' d.name.toList))
  | .consts ds => ds.map fun d => (d.name, d.nameSpan)
  | .assigns as => as.flatMap (·.names)
  | .bank b => (b.name, b.nameSpan) :: b.registers.map fun r => (r.name, (r.span.1, r.span.1 + sizeOf' r.name.toList))

def SRegDecl.spans (r : SRegDecl) : List Span := [r.span, r.default.span]

/-- every statement-level span of a statement: the spans of the declarations, of the names, of the values (top node) -/
def SStmt.spans : SStmt → List Span
  | .wires ds => ds.map (·.span)
  | .consts ds => ds.flatMap fun d => [d.nameSpan, d.value.span]
  | .assigns as => as.flatMap fun a => a.span :: a.value.span :: a.names.map (·.2)
  | .bank b => b.span :: b.nameSpan :: b.registers.flatMap SRegDecl.spans

theorem Chain.mem {α : Type} {G : Nat → Nat → α → Prop} :
    ∀ {l : List α} {lo hi : Nat}, Chain G lo hi l → ∀ x ∈ l, ∃ lo' hi', G lo' hi' x
  | [], _, _, _, x, hx => by cases hx
  | y :: rest, lo, _, ⟨m, g, c⟩, x, hx => by
    rcases List.mem_cons.mp hx with rfl | hx
    · exact ⟨lo, m, g⟩
    · exact Chain.mem c x hx

theorem nameAt_end_eq {text : List Char} {s e : Nat} {n : String} (h : NameAt text s n e) : e = s + sizeOf' n.toList := by
  obtain ⟨_, _, _, _, h3⟩ := h
  exact h3

theorem SStmt.Good.names {text : List Char} {lo hi : Nat} {st : SStmt} (h : SStmt.Good (NameAt text) lo hi st) :
    ∀ p ∈ st.nameSpans, NameAt text p.2.1 p.1 p.2.2 := by
  intro p hp
  cases st with
  | wires ds =>
    simp only [SStmt.nameSpans, List.mem_map] at hp
    obtain ⟨d, hd, rfl⟩ := hp
    obtain ⟨lo', hi', g⟩ := Chain.mem h d hd
    obtain ⟨_, ne, hn, _⟩ := g
    have := nameAt_end_eq hn
    subst this
    exact hn
  | consts ds =>
    simp only [SStmt.nameSpans, List.mem_map] at hp
    obtain ⟨d, hd, rfl⟩ := hp
    obtain ⟨lo', hi', g⟩ := Chain.mem h d hd
    exact g.2.1
  | assigns as =>
    simp only [SStmt.nameSpans, List.mem_flatMap] at hp
    obtain ⟨a, ha, hpa⟩ := hp
    obtain ⟨lo', hi', g⟩ := Chain.mem h a ha
    obtain ⟨_, _, _, m, hc, _⟩ := g
    obtain ⟨lo2, hi2, g2⟩ := Chain.mem hc p hpa
    exact g2.2
  | bank b =>
    simp only [SStmt.nameSpans, List.mem_cons, List.mem_map] at hp
    obtain ⟨_, _, _, hn, m, hc, _⟩ := h
    rcases hp with rfl | ⟨r, hr, rfl⟩
    · exact hn
    · obtain ⟨lo2, hi2, g2⟩ := Chain.mem hc r hr
      obtain ⟨_, ne, hn2, _⟩ := g2
      have := nameAt_end_eq hn2
      subst this
      exact hn2

/-- **The names**: every name a statement of an accepted text declares or assigns (wires, constants, assignment
    targets, register banks and their registers) stands in the text exactly at the span the AST attributes to it. -/
theorem parseProgramSp_names (cls : CharCls) (text : List Char) (ss : List SStmt) (h : parseProgramSp cls text = some ss) :
    ∀ st ∈ ss, ∀ p ∈ st.nameSpans, NameAt text p.2.1 p.1 p.2.2 := by
  intro st hst
  obtain ⟨lo, hi, g⟩ := Chain.mem (parseProgramSp_spans cls text ss h) st hst
  exact g.names

theorem SpanIn.mono {lo hi lo' hi' : Nat} {sp : Span} (h : SpanIn lo hi sp) (hl : lo' ≤ lo) (hh : hi ≤ hi') :
    SpanIn lo' hi' sp := ⟨Nat.le_trans hl h.1, h.2.1, Nat.le_trans h.2.2 hh⟩

theorem PEx.Within.span {x : PEx} {lo hi : Nat} (h : x.Within lo hi) : SpanIn lo hi x.span := by
  cases x <;> first | exact ⟨h.1, h.2.1, h.2.2.1⟩ | exact ⟨h.1, h.2.1, h.2.2⟩

theorem PEx.Within.span_leaf {x : PEx} {lo hi : Nat} (h : x.Within lo hi) : SpanIn lo hi x.span := h.span

/-- all `f`-spans of the items of a chain lie within its bounds -/
theorem Chain.spans {α : Type} {G : Nat → Nat → α → Prop} {f : α → List Span}
    (hG : ∀ x lo hi, G lo hi x → lo ≤ hi ∧ ∀ sp ∈ f x, SpanIn lo hi sp) :
    ∀ {l : List α} {lo hi : Nat}, Chain G lo hi l → ∀ x ∈ l, ∀ sp ∈ f x, SpanIn lo hi sp
  | [], _, _, _, x, hx, _, _ => by cases hx
  | y :: rest, lo, hi, ⟨m, g, c⟩, x, hx, sp, hsp => by
    have hle : m ≤ hi := Chain.le (fun x lo hi g => (hG x lo hi g).1) c
    rcases List.mem_cons.mp hx with rfl | hx
    · exact ((hG _ _ _ g).2 sp hsp).mono (Nat.le_refl _) hle
    · exact (Chain.spans hG c x hx sp hsp).mono (hG _ _ _ g).1 (Nat.le_refl _)

/-- the `f`-spans of an earlier item of a chain end before those of a later item begin -/
theorem Chain.ordered {α : Type} {G : Nat → Nat → α → Prop} {f : α → List Span}
    (hG : ∀ x lo hi, G lo hi x → lo ≤ hi ∧ ∀ sp ∈ f x, SpanIn lo hi sp) :
    ∀ {l : List α} {lo hi : Nat}, Chain G lo hi l → l.Pairwise (fun a b => ∀ sa ∈ f a, ∀ sb ∈ f b, sa.2 ≤ sb.1)
  | [], _, _, _ => List.Pairwise.nil
  | y :: rest, lo, hi, ⟨m, g, c⟩ => by
    refine List.Pairwise.cons ?_ (Chain.ordered hG c)
    intro b hb sa hsa sb hsb
    have h1 := (hG _ _ _ g).2 sa hsa
    have h2 := Chain.spans hG c b hb sb hsb
    exact Nat.le_trans h1.2.2 h2.1

section
variable {N : Nat → String → Nat → Prop}

theorem SWireDecl.Good.spans (x : SWireDecl) (lo hi : Nat) (h : SWireDecl.Good N lo hi x) :
    lo ≤ hi ∧ ∀ sp ∈ [x.span], SpanIn lo hi sp := by
  refine ⟨h.1.le, ?_⟩
  intro sp hsp
  simp only [List.mem_cons, List.not_mem_nil, or_false] at hsp
  subst hsp
  exact h.1

theorem SConstDecl.Good.spans (x : SConstDecl) (lo hi : Nat) (h : SConstDecl.Good N lo hi x) :
    lo ≤ hi ∧ ∀ sp ∈ [x.nameSpan, x.value.span], SpanIn lo hi sp := by
  refine ⟨h.1.le, ?_⟩
  intro sp hsp
  simp only [List.mem_cons, List.not_mem_nil, or_false] at hsp
  rcases hsp with rfl | rfl
  · exact h.1
  · have := h.1.1; have := h.1.2.1
    exact h.2.2.span.mono (by omega) (Nat.le_refl _)

theorem TargetGood.spans (x : String × Span) (lo hi : Nat) (h : TargetGood N lo hi x) :
    lo ≤ hi ∧ ∀ sp ∈ [x.2], SpanIn lo hi sp := by
  refine ⟨h.1.le, ?_⟩
  intro sp hsp
  simp only [List.mem_cons, List.not_mem_nil, or_false] at hsp
  subst hsp
  exact h.1

theorem SAssignment.Good.spans (x : SAssignment) (lo hi : Nat) (h : SAssignment.Good N lo hi x) :
    lo ≤ hi ∧ ∀ sp ∈ x.span :: x.value.span :: x.names.map (·.2), SpanIn lo hi sp := by
  refine ⟨h.1.le, ?_⟩
  obtain ⟨hs, _, _, m, hc, hw⟩ := h
  have hm : x.span.1 ≤ m := Chain.le (fun _ _ _ g => g.1.le) hc
  have hv := hw.span
  have hm2 := hv.le
  intro sp hsp
  simp only [List.mem_cons, List.mem_map] at hsp
  rcases hsp with rfl | rfl | ⟨n, hn, rfl⟩
  · exact hs
  · exact hv.mono (Nat.le_trans hs.1 hm) hs.2.2
  · have := Chain.spans (f := fun n : String × Span => [n.2]) TargetGood.spans hc n hn n.2 List.mem_cons_self
    exact this.mono hs.1 (Nat.le_trans hm2 hs.2.2)

theorem SRegDecl.Good.spans (x : SRegDecl) (lo hi : Nat) (h : SRegDecl.Good N lo hi x) :
    lo ≤ hi ∧ ∀ sp ∈ x.spans, SpanIn lo hi sp := by
  refine ⟨h.1.le, ?_⟩
  obtain ⟨hs, ne, hn, hlt, hw⟩ := h
  intro sp hsp
  simp only [SRegDecl.spans, List.mem_cons, List.not_mem_nil, or_false] at hsp
  rcases hsp with rfl | rfl
  · exact hs
  · exact hw.span.mono (Nat.le_trans hs.1 (Nat.le_of_lt hlt)) hs.2.2

theorem SStmt.Good.spans (x : SStmt) (lo hi : Nat) (h : SStmt.Good N lo hi x) :
    lo ≤ hi ∧ ∀ sp ∈ x.spans, SpanIn lo hi sp := by
  cases x with
  | wires ds =>
    refine ⟨Chain.le (fun _ _ _ g => g.1.le) h, ?_⟩
    intro sp hsp
    simp only [SStmt.spans, List.mem_map] at hsp
    obtain ⟨d, hd, rfl⟩ := hsp
    exact Chain.spans (f := fun d : SWireDecl => [d.span]) SWireDecl.Good.spans h d hd _ List.mem_cons_self
  | consts ds =>
    refine ⟨Chain.le (fun _ _ _ g => g.1.le) h, ?_⟩
    intro sp hsp
    simp only [SStmt.spans, List.mem_flatMap] at hsp
    obtain ⟨d, hd, hsp⟩ := hsp
    exact Chain.spans (f := fun d : SConstDecl => [d.nameSpan, d.value.span]) SConstDecl.Good.spans h d hd _ hsp
  | assigns as =>
    refine ⟨Chain.le (fun _ _ _ g => g.1.le) h, ?_⟩
    intro sp hsp
    simp only [SStmt.spans, List.mem_flatMap] at hsp
    obtain ⟨a, ha, hsp⟩ := hsp
    exact Chain.spans (f := fun a : SAssignment => a.span :: a.value.span :: a.names.map (·.2)) SAssignment.Good.spans h a ha _ hsp
  | bank b =>
    refine ⟨h.1.le, ?_⟩
    obtain ⟨hs, h1, h2, hn, m, hc, hm⟩ := h
    have hle : b.nameSpan.2 ≤ m := Chain.le (fun _ _ _ g => g.1.le) hc
    intro sp hsp
    simp only [SStmt.spans, List.mem_cons, List.mem_flatMap] at hsp
    rcases hsp with rfl | rfl | ⟨r, hr, hsp⟩
    · exact hs
    · exact ⟨by have := hs.1; omega, h2, by have := hs.2.2; omega⟩
    · have := Chain.spans (f := SRegDecl.spans) SRegDecl.Good.spans hc r hr sp hsp
      exact this.mono (by have := hs.1; omega) (by have := hs.2.2; omega)

end

/-- **All spans lie in the text**: every statement-level span of an accepted text (declarations, names, values,
    registers, banks) is a non-empty byte range of the text. -/
theorem parseProgramSp_spans_in_text (cls : CharCls) (text : List Char) (ss : List SStmt)
    (h : parseProgramSp cls text = some ss) : ∀ st ∈ ss, ∀ sp ∈ st.spans, sp.1 < sp.2 ∧ sp.2 ≤ sizeOf' text := by
  intro st hst sp hsp
  have := Chain.spans (f := SStmt.spans) SStmt.Good.spans (parseProgramSp_spans cls text ss h) st hst sp hsp
  exact ⟨this.2.1, this.2.2⟩

/-- **The statements are in order and do not overlap**: every span of an earlier statement ends at or before the start
    of every span of a later statement. -/
theorem parseProgramSp_ordered (cls : CharCls) (text : List Char) (ss : List SStmt)
    (h : parseProgramSp cls text = some ss) :
    ss.Pairwise (fun a b => ∀ sa ∈ a.spans, ∀ sb ∈ b.spans, sa.2 ≤ sb.1) :=
  Chain.ordered (f := SStmt.spans) SStmt.Good.spans (parseProgramSp_spans cls text ss h)

end Parser
