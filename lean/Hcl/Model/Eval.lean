import Hcl.Ast
open Rust

/-! Model of expression evaluation: `BinOpCode::apply/apply_raw`, `UnOpCode::apply`,
    `SpannedExpr::evaluate` (ast.rs).  Rust arithmetic that can panic in a debug build is modelled
    with the partial primitives of `Hcl.Rust`, so a panic is the distinct outcome `Err.fail`. -/

inductive Kind where | boolCombine | boolFromEq | equalWidth | equalWidthWeak
  deriving DecidableEq, Repr

/-- `BinOpCode::kind` -/
def BinOp.kind : BinOp → Kind
  | .land | .lor => .boolCombine
  | .eq | .ne | .le | .ge | .lt | .gt => .boolFromEq
  | .add | .sub | .mul | .div => .equalWidthWeak
  | _ => .equalWidth

def b2n (b : Bool) : Nat := if b then 1 else 0

/-- `BinOpCode::apply_raw`; division is only reached with a non-zero divisor (`apply` checks first),
    the model keeps the zero case as the panic `wrapping_div` would raise -/
def applyRaw (op : BinOp) (l r : Nat) : E Nat :=
  match op with
  | .add => pure (wrappingAdd l r)
  | .sub => pure (wrappingSub l r)
  | .mul => pure (wrappingMul l r)
  | .div => if r = 0 then throw (.fail (.panic "attempt to divide by zero")) else pure (l / r)
  | .or => pure (l ||| r)
  | .xor => pure (l ^^^ r)
  | .and => pure (l &&& r)
  | .eq => pure (b2n (l == r))
  | .ne => pure (b2n (l != r))
  | .le => pure (b2n (l ≤ r))
  | .ge => pure (b2n (l ≥ r))
  | .lt => pure (b2n (l < r))
  | .gt => pure (b2n (l > r))
  | .land => pure (b2n (l != 0 && r != 0))
  | .lor => pure (b2n (l != 0 || r != 0))
  | .shl => pure (if r ≥ 128 then 0 else (l <<< (r % 2^32 % 128)) % U128)
  | .shr => pure (if r ≥ 128 then 0 else l >>> (r % 2^32 % 128))

/-- the `final_width` computation of `BinOpCode::apply` -/
def binWidthE (fl : Flags) (op : BinOp) (a b : Width) : E Width :=
  match op.kind with
  | .equalWidth => match a.combine b with
      | some w => pure w
      | none => throw .runtimeMismatchedWidths
  | .equalWidthWeak =>
      if fl.strictBinary then match a.combine b with
        | some w => pure w
        | none => throw .runtimeMismatchedWidths
      else pure (a.max b)
  | _ => pure (.bits 1)

/-- `BinOpCode::apply` -/
def applyBin (fl : Flags) (op : BinOp) (l r : WireValue) : E WireValue :=
  if op = .div ∧ r.bits = 0 then throw .divideByZero else do
  let w ← binWidthE fl op l.width r.width
  let raw ← applyRaw op l.bits r.bits
  let m ← liftR w.mask
  pure ⟨raw &&& m, w⟩

/-- `UnOpCode::apply` -/
def applyUn (op : UnOp) (v : WireValue) : E WireValue := do
  let nv : Nat := match op with
    | .plus => v.bits
    | .neg => wrappingAdd (not128 v.bits) 1
    | .compl => not128 v.bits
    | .not => if v.bits != 0 then 0 else 1
  let w : Width := if op = .not then .bits 1 else v.width
  let m ← liftR w.mask
  pure ⟨nv &&& m, w⟩

/-- `WireValue::as_width` -/
def asWidth (v : WireValue) (w : Width) : E WireValue := do
  let m ← liftR w.mask
  pure ⟨v.bits &&& m, w⟩

abbrev Env := String → Option WireValue

mutual
/-- `SpannedExpr::evaluate` -/
def ev (fl : Flags) (σ : Env) : Ex → E WireValue
  | .const v => pure v
  | .bin op l r => do
      let a ← ev fl σ l
      let b ← ev fl σ r
      applyBin fl op a b
  | .un op e => do
      let a ← ev fl σ e
      applyUn op a
  | .wire n => match σ n with
      | some v => pure v
      | none => throw (.undeclaredWireRead n)
  | .slice e lo hi => do
      let a ← ev fl σ e
      let sh : Nat := if lo < 128 then a.bits >>> lo else 0       -- checked_shr(low).unwrap_or(0)
      let w ← liftR (uSub hi lo)                                   -- `high - low` on u8
      let m ← liftR (Width.mask (.bits w))
      pure ⟨sh &&& m, .bits w⟩
  | .concat l r => do
      let a ← ev fl σ l
      let b ← ev fl σ r
      match b.width with
      | .bits rb => match a.width with
        | .bits lb => do
            let sh : Nat := if rb < 128 then (a.bits <<< rb) % U128 else 0   -- checked_shl(right_bits).unwrap_or(0)
            let w ← liftR (u8Add lb rb)
            let m ← liftR (Width.mask (.bits w))
            pure ⟨(sh ||| b.bits) &&& m, .bits w⟩
        | .unlimited => throw .noBitWidth
      | .unlimited => throw .noBitWidth
  | .mux opts => evMux fl σ opts
  | .inSet e items => do
      let a ← ev fl σ e
      evIn fl σ a.bits items
def evMux (fl : Flags) (σ : Env) : Opts → E WireValue
  | .nil => pure ⟨0, .unlimited⟩
  | .cons c v rest => do
      let cv ← ev fl σ c
      if cv.bits > 0 then ev fl σ v else evMux fl σ rest
def evIn (fl : Flags) (σ : Env) (x : Nat) : Exs → E WireValue
  | .nil => pure ⟨0, .bits 1⟩
  | .cons e rest => do
      let b ← ev fl σ e
      if x = b.bits then pure ⟨1, .bits 1⟩ else evIn fl σ x rest
end

/-- `SpannedExpr::always_true` -/
def alwaysTrue (fl : Flags) (σ : Env) (e : Ex) : Bool :=
  match ev fl σ e with
  | .ok v => v.bits > 0
  | .error _ => false

