import Hcl.Generated

/-! Text pins (written by tools/mkpins.py): the comment-free, whitespace-normalised bodies of functions that the
    hand-written model transcribes, as they were when the model was last validated against them.  An edit of one
    of these functions makes the `rfl` below fail; the check then looks for an input on which model and code
    differ, and reports the property as no longer shown to hold when it finds none. -/

namespace Tie.PinsYo

/-- `fn load_line_y86(&mut self`, src/program.rs -/
theorem pinLoadLine : Generated.pinLoadLine = ("debug!(\"processing line from yo file {}\", line); fn is_hex(s: &str) -> bool { s.bytes().all(|b| b.is_ascii_hexdigit()) } if line.get(0..2) == Some(\"0x\") && line.get(5..7) == Some(\": \") && line.get(27..29) == Some(\" |\") { if !is_hex(&line[2..5]) { debug!(\"bad address 0x{}\", &line[2..5]); return Err(()); } if let Ok(loc) = u64::from_str_radix(&line[2..5], 16) { if loc != expect_loc { debug!(\"loc {} from natural loc {}\", loc, expect_loc); } let mut loc = loc; let hex_chars = &line[7..27]; let mut i = 0; while i < hex_chars.len() && hex_chars.get(i..(i+1)) != Some(\" \") { match hex_chars.get(i..(i+2)) { Some(digits) if is_hex(digits) => { let byte = u8::from_str_radix(digits, 16).unwrap(); self.data.insert(loc, byte); debug!(\"loaded {:x} -> {:x}\", byte, loc); loc += 1; i += 2; }, _ => { debug!(\"non-hexadecimal data in {}\", hex_chars); return Err(()); }, } } return Ok(loc); } else { debug!(\"bad address 0x{}\", &line[2..5]); return Err(()); } } else if line.contains(\"|\") && !line.starts_with(\" |\") { debug!(\"found pipe, but not other parts of yas format\"); return Err(()); } else { debug!(\"ignoring line {}\", line); return Ok(expect_loc); }" : String) := by rfl

/-- `pub fn load_from_y86<R: BufRead>`, src/program.rs -/
theorem pinLoadFrom : Generated.pinLoadFrom = ("let mut found_something = false; let mut next_loc: u64 = 0x0; for maybe_line in reader.lines() { let line = maybe_line?; if let Ok(new_loc) = self.load_line_y86(next_loc, &line) { found_something = true; next_loc = new_loc; } else { return Err(Error::UnparseableLine(String::from(line))); } } if !found_something { return Err(Error::EmptyFile()); } debug!(\"after loading from yo file: {} items\", self.data.len()); Ok(())" : String) := by rfl

end Tie.PinsYo
