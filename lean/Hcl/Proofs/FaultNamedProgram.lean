import Hcl.Proofs.FaultNamedActions
open Rust

/-! Group C (and B8) at the level of `Program::new`, for the Y86 component table. -/

namespace FaultNamed

/-! ### the third exit of `assignments_to_actions` -/

/-- `preprocess_fixed` reports nothing and the dependency graph has no cycle (four of the six conditions of `ActionsOK`) -/
structure PreOK (fl : Flags) (assignments : AMap Ex) (widths : AMap Width) (fixed : List FixedFunction)
    (constants : AMap WireValue) : Prop where
  mand : ∀ f ∈ fixed, f.mandatory = true → Active assignments f
  unused : ∀ f ∈ fixed, ¬ Active assignments f → ∀ n w, f.outWire = some (n, w) → ∀ p ∈ assignments, n ∉ refs p.2
  partialOff : ∀ f ∈ fixed, ¬ Active assignments f → (∃ i ∈ f.inWires.map (·.1), assignments.contains i = true) →
    DisabledBy fl widths constants assignments f
  acyclic : ¬ ∃ c, RelCycle (ActDep assignments fixed) c

/-- the third exit: `preprocess_fixed` reports nothing, the sort succeeds, the loop reports something -/
theorem assignmentsToActions_sorted_error (fl : Flags) (o : Orders) (assignments : AMap Ex) (widths : AMap Width)
    (known : List String) (fixed : List FixedFunction) (declared : List String) (constants : AMap WireValue)
    (hpe : (preOf fl assignments widths known fixed constants).errors = []) (order : List String)
    (hso : (preOf fl assignments widths known fixed constants).graph.sort o = .ok order)
    (hne : (actionsLoop fl assignments widths declared constants (preOf fl assignments widths known fixed constants).info.byOutput
        order { covered := known }).errors ++
      (actionsLoop fl assignments widths declared constants (preOf fl assignments widths known fixed constants).info.byOutput
        order { covered := known }).seenUndeclared.map (fun n => (⟨.UnsetUndeclaredWire, [n]⟩ : Diag)) ≠ []) :
    assignmentsToActions fl o assignments widths known fixed declared constants = .error
      ((actionsLoop fl assignments widths declared constants (preOf fl assignments widths known fixed constants).info.byOutput
        order { covered := known }).errors ++
      (actionsLoop fl assignments widths declared constants (preOf fl assignments widths known fixed constants).info.byOutput
        order { covered := known }).seenUndeclared.map (fun n => (⟨.UnsetUndeclaredWire, [n]⟩ : Diag))) := by
  unfold assignmentsToActions
  simp only
  have : List.foldl (preprocessOne fl widths constants assignments known) { graph := assignGraph assignments known } fixed =
    preOf fl assignments widths known fixed constants := rfl
  rw [this, hpe]
  simp only [List.isEmpty_nil, Bool.not_true, Bool.false_eq_true, if_false, hso]
  rw [if_neg]
  simpa using hne

/-- the diagnostics of the loop over the sorted names are all returned, when `preprocess_fixed` reports nothing and
    there is no cycle -/
theorem assignmentsToActions_loop_exit (fl : Flags) (o : Orders) (assignments : AMap Ex) (widths : AMap Width)
    (known : List String) (fixed : List FixedFunction) (declared : List String) (constants : AMap WireValue)
    (ho : OrdersOK o) (ht : FixedTableOK fixed) (hk : assignments.keys.Nodup)
    (hio : ∀ f ∈ fixed, ∀ g ∈ fixed, ∀ w, g.outWire = some w → w.1 ∉ f.inWires.map (·.1))
    (hin : ∀ f ∈ fixed, ∀ n ∈ f.inWires.map (·.1), known.contains n = false)
    (hout : ∀ f ∈ fixed, ∀ n w, f.outWire = some (n, w) → known.contains n = false ∧ assignments.contains n = false)
    (hp : PreOK fl assignments widths fixed constants) :
    ∃ (order : List String) (byOutput : AMap FixedFunction),
      (∀ k ∈ assignments.keys, k ∈ order) ∧
      (∀ p ∈ assignments, ∀ r ∈ refs p.2, known.contains r = false → r ∈ order) ∧
      (∀ n f, (n, f) ∈ byOutput → f ∈ fixed ∧ ∃ w, f.outWire = some (n, w)) ∧
      ∀ errs, errs = (actionsLoop fl assignments widths declared constants byOutput order { covered := known }).errors ++
          (actionsLoop fl assignments widths declared constants byOutput order { covered := known }).seenUndeclared.map
            (fun n => (⟨.UnsetUndeclaredWire, [n]⟩ : Diag)) →
        errs ≠ [] → assignmentsToActions fl o assignments widths known fixed declared constants = .error errs := by
  obtain ⟨g0wf, g0nodes, g0edges⟩ := assignGraph_spec assignments known hk
  have g0up := assignGraph_nodes_upper assignments known
  have hinv0 : PreInv assignments (assignGraph assignments known) [] ({ graph := assignGraph assignments known } : PreState) :=
    ⟨rfl, fun n hn => Or.inl hn, by intro f hf; simp at hf⟩
  have hinv : PreInv assignments (assignGraph assignments known) fixed (preOf fl assignments widths known fixed constants) :=
    preprocess_fold_inv fl widths constants assignments known fixed ht _ g0up hio hin hout hp.mand hp.unused
      hp.partialOff fixed [] _ (by simp) hinv0
  have hg0c : ∀ e ∈ (assignGraph assignments known).edges, assignments.contains e.2 = true := by
    intro e he
    obtain ⟨ex, hm, _⟩ := (g0edges e.1 e.2).mp he
    exact (AMap.contains_iff_mem_keys _ _).mpr (List.mem_map.mpr ⟨(e.2, ex), hm, rfl⟩)
  have hinit : PreFacts assignments known (assignGraph assignments known) [] ({ graph := assignGraph assignments known } : PreState) :=
    { noOut := by intro f hf; simp at hf
      byKeys := by simp [AMap.keys]
      byOut := by intro n f hf; simp at hf
      wf := g0wf
      nodes := fun n hn => hn
      edges := fun e he => Or.inl he
      noOutSub := List.Sublist.refl _
      edgesG0 := fun e he => he
      edgesFixed := by intro n f hf; simp at hf }
  have hpf : PreFacts assignments known (assignGraph assignments known) fixed (preOf fl assignments widths known fixed constants) :=
    preprocess_fold_facts fl widths constants assignments known fixed ht _ hg0c fixed [] _ (by simp) hinit hinv.errs
  have hpe' : (preOf fl assignments widths known fixed constants).errors = [] := hinv.errs
  rcases (preOf fl assignments widths known fixed constants).graph.sort_spec o hpf.wf ho with
    ⟨order, hso, _, hcover, _⟩ | ⟨c, hsc, hcyc⟩
  · refine ⟨order, (preOf fl assignments widths known fixed constants).info.byOutput, ?_, ?_, ?_, ?_⟩
    · intro k hk'
      exact (hcover k).mpr (hpf.nodes k (g0nodes k hk'))
    · intro p hp' r hr hkn
      have hedge : (r, p.1) ∈ (assignGraph assignments known).edges := (g0edges r p.1).mpr ⟨p.2, hp', hr, hkn⟩
      exact (hcover r).mpr (hpf.nodes r (g0wf.closed _ hedge).1)
    · intro n f hf
      obtain ⟨h1, h2, _⟩ := hpf.byOut n f hf
      exact ⟨h1, h2⟩
    · intro errs he hne
      subst he
      exact assignmentsToActions_sorted_error fl o assignments widths known fixed declared constants hpe' order hso hne
  · exfalso
    apply hp.acyclic
    refine ⟨c, ?_⟩
    apply relCycle_mono _ c ((preOf fl assignments widths known fixed constants).graph.cycle_edges o ho c hcyc)
    intro u v huv
    rcases hpf.edges (u, v) huv with h1 | ⟨f, hf, hi⟩
    · obtain ⟨e, he, hr, _⟩ := (g0edges u v).mp h1
      exact Or.inl ⟨e, he, hr⟩
    · obtain ⟨hfd, hw, _⟩ := hpf.byOut v f hf
      exact Or.inr ⟨f, hfd, hw, hi⟩

/-! ### the hypotheses of group C: stages 1 to 4 report nothing -/

/-- stages 1 to 4 of `Program::new` have nothing to report (this is `Faultless` without its last field `actionsOK`) -/
structure Stages14 (fl : Flags) (cls : CharClass) (o : Orders) (stmts : List Stmt) (constants : AMap WireValue) : Prop where
  s12 : Stage12 fl o y86FixedFunctions stmts constants
  wf : StmtsWF stmts
  orders : OrdersOK o
  banksOK : ∀ b ∈ (step1Of stmts).banksRaw, BankDeclOK fl cls (step1Of stmts) constants b
  registerNamesNodup : (allRegNames (step1Of stmts).banksRaw).Nodup
  neededAssigned : ∀ n ∈ neededOf (step1Of stmts) (step3Of fl cls (step1Of stmts) constants), n ∈ allTargets stmts

/-- the width table and the known names handed to `assignments_to_actions` -/
abbrev widthsOf (fl : Flags) (cls : CharClass) (stmts : List Stmt) (constants : AMap WireValue) : AMap Width :=
  finalWires (step1Of stmts) constants (step3Of fl cls (step1Of stmts) constants)
abbrev knownNames (fl : Flags) (cls : CharClass) (stmts : List Stmt) (constants : AMap WireValue) : List String :=
  knownOf (step1Of stmts) constants (step3Of fl cls (step1Of stmts) constants)

section
variable {fl : Flags} {cls : CharClass} {o : Orders} {stmts : List Stmt} {constants : AMap WireValue}

/-- what stages 1 to 4 establish about the tables -/
theorem Stages14.facts (h : Stages14 fl cls o stmts constants) :
    TablesHyp (fixedNamesOf y86FixedFunctions) y86W0 (step1Of stmts) constants (step3Of fl cls (step1Of stmts) constants) ∧
    (∀ f ∈ y86FixedFunctions, ∀ n ∈ f.inWires.map (·.1), (knownNames fl cls stmts constants).contains n = false) ∧
    (∀ f ∈ y86FixedFunctions, ∀ n w, f.outWire = some (n, w) →
      (knownNames fl cls stmts constants).contains n = false ∧ (step1Of stmts).assignments.contains n = false) ∧
    (∀ n, n ∈ knownNames fl cls stmts constants → n ∈ bankOuts (step3Of fl cls (step1Of stmts) constants).banks ∨
      n ∈ (constPairs (step1Of stmts).constantsRaw.keys constants).map (·.1)) := by
  obtain ⟨s1inv, _⟩ := step1_fold_inv (fixedNamesOf y86FixedFunctions)
    (y86FixedFunctions.filterMap fun f => f.outWire.map (·.1)) y86W0 stmts (step1Init y86FixedFunctions) h.wf step1Init_inv
  have hs1i : S1Inv (fixedNamesOf y86FixedFunctions) y86W0 (step1Of stmts) := s1inv
  have hs1clean : (step1Of stmts).errors = [] :=
    (step1Of_errors_nil_iff stmts).mpr ⟨h.s12.declNodup, h.s12.declNotBuiltin, h.s12.targetsNodup, h.s12.targetsNotOutput⟩
  have hw : ∀ b ∈ (step1Of stmts).banksRaw, ∀ r ∈ b.regs, r.width.ok := fun b hb r hr => (hs1i.banks b hb r hr).1
  have hs3clean := (step3Of_errors_nil_iff fl cls (step1Of stmts) constants hw).mpr ⟨h.banksOK, h.registerNamesNodup⟩
  have hconsts : resolveConstants fl o (step1Of stmts).constantsRaw = .ok constants := h.s12.constantsResolve
  have hcok := resolveConstants_constOK fl o (step1Of stmts).constantsRaw constants hs1i.cWf hconsts
  have hckeys := resolveConstants_keys fl o (step1Of stmts).constantsRaw constants hconsts
  have hs3f : S3Facts (step1Of stmts).declared (fun n => (step1Of stmts).assignments.contains n = false)
      (step3Of fl cls (step1Of stmts) constants) {} :=
    step3_facts fl cls (step1Of stmts) constants hw hs3clean
  have hyp : TablesHyp (fixedNamesOf y86FixedFunctions) y86W0 (step1Of stmts) constants (step3Of fl cls (step1Of stmts) constants) :=
    { s1inv := hs1i, s1clean := hs1clean, cok := hcok, ckeys := hckeys, s3f := hs3f
      fnShape := by
        intro n hn
        have a := List.all_eq_true.mp y86_names_not_sig n hn
        have b := List.all_eq_true.mp y86_names_not_ctl n hn
        exact ⟨by simpa using a, by simpa using b⟩ }
  have hknownmem : ∀ n, n ∈ knownOf (step1Of stmts) constants (step3Of fl cls (step1Of stmts) constants) →
      n ∈ bankOuts (step3Of fl cls (step1Of stmts) constants).banks ∨
      n ∈ (constPairs (step1Of stmts).constantsRaw.keys constants).map (·.1) := by
    intro n hn
    unfold knownOf at hn
    rw [mem_foldl_setInsert, mem_foldl_setInsert] at hn
    rcases hn with (h1 | h1) | h1
    · simp at h1
    · exact Or.inl h1
    · exact Or.inr h1
  have hfixedNotKnown : ∀ n ∈ fixedNamesOf y86FixedFunctions,
      (knownOf (step1Of stmts) constants (step3Of fl cls (step1Of stmts) constants)).contains n = false := by
    intro n hn
    by_cases hc : (knownOf (step1Of stmts) constants (step3Of fl cls (step1Of stmts) constants)).contains n = true
    · exfalso
      have hm : n ∈ knownOf (step1Of stmts) constants (step3Of fl cls (step1Of stmts) constants) := by simpa using hc
      rcases hknownmem n hm with h1 | h1
      · simp only [bankOuts, List.mem_flatMap, List.mem_map] at h1
        obtain ⟨b, hb, sg, hsg, rfl⟩ := h1
        have := isSigName_second ((hs3f.banks b hb).sigs.sig sg hsg).2.1
        rw [(hyp.fnShape _ hn).1] at this; cases this
      · obtain ⟨pr, hpr, rfl⟩ := List.mem_map.mp h1
        exact (constPairs_declared hyp pr hpr).2.1 hn
    · simpa using hc
  refine ⟨hyp, ?_, ?_, hknownmem⟩
  · intro f hf n hn
    apply hfixedNotKnown
    unfold fixedNamesOf
    rw [mem_dedupS]
    exact List.mem_flatMap.mpr ⟨f, hf, List.mem_append_left _ hn⟩
  · intro f hf n w hout
    have hn : n ∈ fixedNamesOf y86FixedFunctions := by
      have := List.all_eq_true.mp y86_out_in_names f hf
      rw [hout] at this
      simpa using this
    refine ⟨hfixedNotKnown n hn, ?_⟩
    by_cases hc : (step1Of stmts).assignments.contains n = true
    · exfalso
      exact h.s12.targetsNotOutput n ((step1Of_assignments_contains_iff stmts n).mp hc) (List.mem_filterMap.mpr ⟨f, hf, by simp [hout]⟩)
    · simpa using hc

/-- the gate: with stages 1 to 4 silent, the result of `Program::new` is that of `assignments_to_actions` -/
theorem Stages14.gate (h : Stages14 fl cls o stmts constants) (ds : List Diag)
    (h5 : assignmentsToActions fl o (step1Of stmts).assignments (widthsOf fl cls stmts constants)
      (knownNames fl cls stmts constants) y86FixedFunctions (step1Of stmts).declared constants = .error ds) :
    Program.new fl cls o y86FixedFunctions stmts = .error ds := by
  have h1 : errs1Of (step1Of stmts) = [] := errs1Of_nil_of fl o y86FixedFunctions stmts constants h.s12
  have hrefs : ∀ p ∈ (step1Of stmts).constantsRaw, ∀ r ∈ refs p.2, (step1Of stmts).constantsRaw.contains r = true := by
    unfold errs1Of at h1
    rw [List.append_eq_nil_iff] at h1
    exact (constRefErrors_nil_iff _).mp h1.2
  obtain ⟨hyp, _, _, _⟩ := h.facts
  have hw : ∀ b ∈ (step1Of stmts).banksRaw, ∀ r ∈ b.regs, r.width.ok := fun b hb r hr => (hyp.s1inv.banks b hb r hr).1
  have hs3clean := (step3Of_errors_nil_iff fl cls (step1Of stmts) constants hw).mpr ⟨h.banksOK, h.registerNamesNodup⟩
  exact Program_new_error_of_actions fl cls o stmts h.orders constants ds h1 hrefs h.wf h.s12.constantsResolve hs3clean
    (fun n hn => (step1Of_assignments_contains_iff stmts n).mpr (h.neededAssigned n hn)) h5

/-- a diagnostic of `preprocess_fixed` is in the result of `Program::new` -/
theorem Stages14.of_pre (h : Stages14 fl cls o stmts constants) (d : Diag)
    (hd : d ∈ (preOf fl (step1Of stmts).assignments (widthsOf fl cls stmts constants) (knownNames fl cls stmts constants)
      y86FixedFunctions constants).errors) :
    ∃ ds, Program.new fl cls o y86FixedFunctions stmts = .error ds ∧ d ∈ ds :=
  ⟨_, h.gate _ (assignmentsToActions_pre_error fl o _ _ _ _ _ _ (List.ne_nil_of_mem hd)), hd⟩

/-! ### B8 and C13: the built-in components -/

/-- B8. an input of a mandatory component (`pc` of the instruction memory, `Stat`) has no assignment -/
theorem mandatory_input_unset_named (h : Stages14 fl cls o stmts constants) (f : FixedFunction)
    (hf : f ∈ y86FixedFunctions) (hm : f.mandatory = true) (n : String) (hn : n ∈ f.inWires.map (·.1))
    (hna : n ∉ allTargets stmts) :
    ∃ ds, Program.new fl cls o y86FixedFunctions stmts = .error ds ∧ (⟨.UnsetBuiltinWire, [n]⟩ : Diag) ∈ ds := by
  apply h.of_pre
  unfold preOf
  refine preprocess_fold_errors_at fl _ constants _ _ (fun _ => True) (fun _ _ _ => trivial) _ y86FixedFunctions _ f hf trivial ?_
  intro st _
  apply preprocessOne_mandatory_missing fl _ constants _ _ st f n hm hn
  apply amap_contains_false_of_not
  intro hc
  exact hna ((step1Of_assignments_contains_iff stmts n).mp hc)

/-- B8'. an input of a component that is not mandatory but whose output is read by some assignment has no assignment -/
theorem used_component_input_unset_named (h : Stages14 fl cls o stmts constants) (f : FixedFunction)
    (hf : f ∈ y86FixedFunctions) (hm : f.mandatory = false) (out : String) (w : Nat) (ho : f.outWire = some (out, w))
    (p : String × Ex) (hp : p ∈ (step1Of stmts).assignments) (hr : out ∈ refs p.2)
    (n : String) (hn : n ∈ f.inWires.map (·.1)) (hna : n ∉ allTargets stmts) :
    ∃ ds, Program.new fl cls o y86FixedFunctions stmts = .error ds ∧ (⟨.UnsetBuiltinWire, [n]⟩ : Diag) ∈ ds := by
  obtain ⟨hyp, _, hout, _⟩ := h.facts
  apply h.of_pre
  unfold preOf
  obtain ⟨g0wf, _, g0edges⟩ := assignGraph_spec (step1Of stmts).assignments (knownNames fl cls stmts constants) hyp.s1inv.aKeys
  have hnode : out ∈ (assignGraph (step1Of stmts).assignments (knownNames fl cls stmts constants)).nodes := by
    have hedge := (g0edges out p.1).mpr ⟨p.2, hp, hr, (hout f hf out w ho).1⟩
    exact (g0wf.closed _ hedge).1
  refine preprocess_fold_errors_at fl _ constants _ _ (fun st => out ∈ st.graph.nodes)
    (fun st g hst => preprocessOne_nodes_mono fl _ constants _ _ st g out hst) _ y86FixedFunctions _ f hf hnode ?_
  intro st hst
  apply preprocessOne_used_missing fl _ constants _ _ st f n out w hm ho hst hn
  apply amap_contains_false_of_not
  intro hc
  exact hna ((step1Of_assignments_contains_iff stmts n).mp hc)

/-- C13. a component that is not mandatory has some but not all of its inputs, and its enable input is not assigned a
    checked expression evaluating to 0: the diagnostic lists the inputs found, `"/"`, the inputs missing (in the order of
    the component's input list) -/
theorem partial_component_named (h : Stages14 fl cls o stmts constants) (f : FixedFunction)
    (hf : f ∈ y86FixedFunctions) (hm : f.mandatory = false)
    (hsome : ∃ i ∈ f.inWires.map (·.1), i ∈ allTargets stmts)
    (hnot : ∃ i ∈ f.inWires.map (·.1), i ∉ allTargets stmts)
    (hen : ¬ DisabledBy fl (widthsOf fl cls stmts constants) constants (step1Of stmts).assignments f) :
    ∃ ds, Program.new fl cls o y86FixedFunctions stmts = .error ds ∧
      (⟨.PartialFixedInput, (f.inWires.map (·.1)).filter (fun n => (step1Of stmts).assignments.contains n) ++ ["/"] ++
        (f.inWires.map (·.1)).filter (fun n => !(step1Of stmts).assignments.contains n)⟩ : Diag) ∈ ds := by
  apply h.of_pre
  unfold preOf
  refine preprocess_fold_errors_at fl _ constants _ _ (fun _ => True) (fun _ _ _ => trivial) _ y86FixedFunctions _ f hf trivial ?_
  intro st _
  apply preprocessOne_partial fl _ constants _ _ st f hm
  · obtain ⟨i, hi, hia⟩ := hsome
    exact ⟨i, hi, (step1Of_assignments_contains_iff stmts i).mpr hia⟩
  · obtain ⟨i, hi, hia⟩ := hnot
    refine ⟨i, hi, ?_⟩
    apply amap_contains_false_of_not
    intro hc
    exact hia ((step1Of_assignments_contains_iff stmts i).mp hc)
  · exact hen

/-! ### C11 and C12: the loop over the sorted names -/

/-- the core of C11/C12: with stages 1–4 silent, `preprocess_fixed` silent and no cycle, every diagnostic the loop
    gives for a name that is assigned or read is in the result -/
theorem loop_diag_named (h : Stages14 fl cls o stmts constants)
    (hp : PreOK fl (step1Of stmts).assignments (widthsOf fl cls stmts constants) y86FixedFunctions constants) :
    ∃ byOutput : AMap FixedFunction,
      (∀ n f, (n, f) ∈ byOutput → f ∈ y86FixedFunctions ∧ ∃ w, f.outWire = some (n, w)) ∧
      ∀ name, (name ∈ allTargets stmts ∨ ∃ p ∈ (step1Of stmts).assignments, name ∈ refs p.2 ∧
          (knownNames fl cls stmts constants).contains name = false) →
        (∀ d ∈ nameErrs fl (step1Of stmts).assignments (widthsOf fl cls stmts constants) (step1Of stmts).declared constants
            byOutput name, ∃ ds, Program.new fl cls o y86FixedFunctions stmts = .error ds ∧ d ∈ ds) ∧
        (nameUndecl (step1Of stmts).assignments (step1Of stmts).declared byOutput name = true →
          ∃ ds, Program.new fl cls o y86FixedFunctions stmts = .error ds ∧ (⟨.UnsetUndeclaredWire, [name]⟩ : Diag) ∈ ds) := by
  obtain ⟨hyp, hin, hout, _⟩ := h.facts
  obtain ⟨order, byOutput, hkeys, hreads, hby, hexit⟩ := assignmentsToActions_loop_exit fl o (step1Of stmts).assignments
    (widthsOf fl cls stmts constants) (knownNames fl cls stmts constants) y86FixedFunctions (step1Of stmts).declared constants
    h.orders y86Fixed_table hyp.s1inv.aKeys y86_hio hin hout hp
  refine ⟨byOutput, hby, ?_⟩
  intro name hname
  have hmem : name ∈ order := by
    rcases hname with hn | ⟨p, hp', hr, hkn⟩
    · exact hkeys name ((AMap.contains_iff_mem_keys _ _).mp ((step1Of_assignments_contains_iff stmts name).mpr hn))
    · exact hreads p hp' name hr hkn
  constructor
  · intro d hd
    have hdm := actionsLoop_errors_name fl (step1Of stmts).assignments (widthsOf fl cls stmts constants) (step1Of stmts).declared
      constants byOutput order { covered := knownNames fl cls stmts constants } d name hmem hd
    have hdm' := List.mem_append_left
      ((actionsLoop fl (step1Of stmts).assignments (widthsOf fl cls stmts constants) (step1Of stmts).declared
        constants byOutput order { covered := knownNames fl cls stmts constants }).seenUndeclared.map
          (fun n => (⟨.UnsetUndeclaredWire, [n]⟩ : Diag))) hdm
    exact ⟨_, h.gate _ (hexit _ rfl (List.ne_nil_of_mem hdm')), hdm'⟩
  · intro hu
    have hsm := actionsLoop_seen_name fl (step1Of stmts).assignments (widthsOf fl cls stmts constants) (step1Of stmts).declared
      constants byOutput order { covered := knownNames fl cls stmts constants } name hmem hu
    have hdm' : (⟨.UnsetUndeclaredWire, [name]⟩ : Diag) ∈
        (actionsLoop fl (step1Of stmts).assignments (widthsOf fl cls stmts constants) (step1Of stmts).declared
          constants byOutput order { covered := knownNames fl cls stmts constants }).errors ++
        (actionsLoop fl (step1Of stmts).assignments (widthsOf fl cls stmts constants) (step1Of stmts).declared
          constants byOutput order { covered := knownNames fl cls stmts constants }).seenUndeclared.map
            (fun n => (⟨.UnsetUndeclaredWire, [n]⟩ : Diag)) :=
      List.mem_append_right _ (List.mem_map.mpr ⟨name, hsm, rfl⟩)
    exact ⟨_, h.gate _ (hexit _ rfl (List.ne_nil_of_mem hdm')), hdm'⟩

/-- C11. an assigned name that has no entry in the width table: it is not a built-in name, not a declared wire, not a
    register-bank signal, not a constant -/
theorem undeclared_assigned_named (h : Stages14 fl cls o stmts constants)
    (hp : PreOK fl (step1Of stmts).assignments (widthsOf fl cls stmts constants) y86FixedFunctions constants)
    (n : String) (hn : n ∈ allTargets stmts) (hw : (widthsOf fl cls stmts constants).get? n = none) :
    ∃ ds, Program.new fl cls o y86FixedFunctions stmts = .error ds ∧ (⟨.UndeclaredWireAssigned, [n]⟩ : Diag) ∈ ds := by
  obtain ⟨byOutput, _, hcore⟩ := loop_diag_named h hp
  apply (hcore n (Or.inl hn)).1
  obtain ⟨e, he⟩ := (AMap.contains_iff_lookup _ _).mp ((step1Of_assignments_contains_iff stmts n).mpr hn)
  have he' : (step1Of stmts).assignments.get? n = some e := he
  unfold nameErrs
  simp only [he', hw]
  exact List.mem_singleton.mpr rfl

/-- C12a. everything the width checker reports for an assigned expression whose target has a width is in the result;
    in particular `UndeclaredWireRead [r]` when the checker reaches a name `r` without a width -/
theorem check_diag_named (h : Stages14 fl cls o stmts constants)
    (hp : PreOK fl (step1Of stmts).assignments (widthsOf fl cls stmts constants) y86FixedFunctions constants)
    (n : String) (e : Ex) (he : (step1Of stmts).assignments.get? n = some e) (w : Width)
    (hw : (widthsOf fl cls stmts constants).get? n = some w) (ds' : List Diag)
    (hc : check fl (widthsOf fl cls stmts constants).toCtx constants.toEnv e = .error ds') (d : Diag) (hd : d ∈ ds') :
    ∃ ds, Program.new fl cls o y86FixedFunctions stmts = .error ds ∧ d ∈ ds := by
  obtain ⟨byOutput, _, hcore⟩ := loop_diag_named h hp
  have hn : n ∈ allTargets stmts :=
    (step1Of_assignments_contains_iff stmts n).mp ((AMap.contains_iff_lookup _ _).mpr ⟨e, he⟩)
  apply (hcore n (Or.inl hn)).1
  unfold nameErrs
  simp only [he, hw, hc]
  exact hd

/-- C12b. a name read by an assigned expression that has no declaration at all: not known (a register output or a
    constant), not assigned, not the output of a built-in component, not declared -/
theorem undeclared_read_named (h : Stages14 fl cls o stmts constants)
    (hp : PreOK fl (step1Of stmts).assignments (widthsOf fl cls stmts constants) y86FixedFunctions constants)
    (p : String × Ex) (hpm : p ∈ (step1Of stmts).assignments) (r : String) (hr : r ∈ refs p.2)
    (hkn : r ∉ knownNames fl cls stmts constants) (hna : r ∉ allTargets stmts)
    (hno : r ∉ fixedOutOf y86FixedFunctions) (hnd : r ∉ allDeclared stmts) :
    ∃ ds, Program.new fl cls o y86FixedFunctions stmts = .error ds ∧ (⟨.UnsetUndeclaredWire, [r]⟩ : Diag) ∈ ds := by
  obtain ⟨byOutput, hby, hcore⟩ := loop_diag_named h hp
  apply (hcore r (Or.inr ⟨p, hpm, hr, contains_false_of_not_mem hkn⟩)).2
  unfold nameUndecl
  have h1 : (step1Of stmts).assignments.get? r = none := by
    cases hg : (step1Of stmts).assignments.get? r with
    | none => rfl
    | some e =>
      exact absurd ((step1Of_assignments_contains_iff stmts r).mp ((AMap.contains_iff_lookup _ _).mpr ⟨e, hg⟩)) hna
  have h2 : byOutput.get? r = none := by
    cases hg : byOutput.get? r with
    | none => rfl
    | some f =>
      obtain ⟨hf, w, hw⟩ := hby r f (AMap.mem_of_get? _ _ _ hg)
      exact absurd (List.mem_filterMap.mpr ⟨f, hf, by simp [hw]⟩) hno
  have h3 : (step1Of stmts).declared.contains r = false :=
    contains_false_of_not_mem (fun hm => hnd ((step1Of_declared_iff stmts r).mp hm))
  rw [h1, h2, h3]
  rfl

end

end FaultNamed
