/-! S-expressions: the wire format between the Rust harness and the Lean driver. -/

inductive SExp where
  | atom (s : String)
  | list (l : List SExp)
  deriving Repr, Inhabited

namespace SExp

/-- tokens: "(" ")" or an atom -/
def tokenize (s : String) : List String :=
  let rec go (cs : List Char) (cur : List Char) (acc : List String) : List String :=
    let flush (acc : List String) : List String :=
      if cur.isEmpty then acc else String.ofList cur.reverse :: acc
    match cs with
    | [] => (flush acc).reverse
    | c :: rest =>
      if c = '(' then go rest [] ("(" :: flush acc)
      else if c = ')' then go rest [] (")" :: flush acc)
      else if c = ' ' || c = '\t' || c = '\n' || c = '\r' then go rest [] (flush acc)
      else go rest (c :: cur) acc
  go s.toList [] []

/-- parse a token list with an explicit stack of partially built lists -/
def parseTokens (toks : List String) : Option SExp :=
  let rec go (toks : List String) (stack : List (List SExp)) : Option SExp :=
    match toks with
    | [] => match stack with
      | [[x]] => some x
      | _ => none
    | t :: rest =>
      if t = "(" then go rest ([] :: stack)
      else if t = ")" then
        match stack with
        | top :: next :: more => go rest ((SExp.list top.reverse :: next) :: more)
        | _ => none
      else
        match stack with
        | top :: more => go rest ((SExp.atom t :: top) :: more)
        | [] => none
  go toks [[]]

def parse (s : String) : Option SExp := parseTokens (tokenize s)

def atom? : SExp → Option String
  | .atom s => some s
  | _ => none

def nat? : SExp → Option Nat
  | .atom s => s.toNat?
  | _ => none

def list? : SExp → Option (List SExp)
  | .list l => some l
  | _ => none

/-- `(tag a b c)` ↦ `some (tag, [a,b,c])` -/
def tagged? : SExp → Option (String × List SExp)
  | .list (.atom t :: rest) => some (t, rest)
  | _ => none

partial def toString : SExp → String
  | .atom s => s
  | .list l => "(" ++ " ".intercalate (l.map toString) ++ ")"

end SExp
