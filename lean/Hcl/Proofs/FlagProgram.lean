import Hcl.Proofs.FlagIndep
import Hcl.Proofs.ConstErrors
import Hcl.Proofs.ActionsVerdict
open Rust

/-! A program accepted under two sets of strictness options is the same program under both. -/

section
variable (fl₁ fl₂ : Flags)

theorem resolveLoop_flag (exprs : AMap Ex) (hwf : ∀ p ∈ exprs, wfEx p.2 = true) :
    ∀ (names : List String) (res : AMap WireValue) (errs₁ errs₂ : List Diag), ConstOK res →
    (resolveLoop fl₁ exprs names res errs₁).2 = [] → (resolveLoop fl₂ exprs names res errs₂).2 = [] →
    (resolveLoop fl₁ exprs names res errs₁).1 = (resolveLoop fl₂ exprs names res errs₂).1
  | [], _, _, _, _, _, _ => rfl
  | name :: rest, res, errs₁, errs₂, hc, h₁, h₂ => by
    cases hg : exprs.get? name with
    | none =>
      rw [resolveLoop, hg] at h₁
      simp only [List.append_eq_nil_iff] at h₁
      exact absurd h₁.2 (by simp [panicDiag])
    | some e =>
      have hwfe := hwf (name, e) (AMap.mem_of_get? _ _ _ hg)
      obtain ⟨c1, c2⟩ := constCtx_ok res hc
      cases hv₁ : constVal fl₁ res e with
      | error ds =>
        rw [resolveLoop_step_err fl₁ exprs name rest res errs₁ e ds hg hv₁] at h₁
        obtain ⟨h, _, _⟩ := resolveLoop_all fl₁ exprs rest res _ h₁
        rw [List.append_eq_nil_iff] at h
        unfold constVal wOf at hv₁
        exact absurd h.2 (checkFixEval_err fl₁ _ _ _ _ hv₁)
      | ok v₁ =>
        cases hv₂ : constVal fl₂ res e with
        | error ds =>
          rw [resolveLoop_step_err fl₂ exprs name rest res errs₂ e ds hg hv₂] at h₂
          obtain ⟨h, _, _⟩ := resolveLoop_all fl₂ exprs rest res _ h₂
          rw [List.append_eq_nil_iff] at h
          unfold constVal wOf at hv₂
          exact absurd h.2 (checkFixEval_err fl₂ _ _ _ _ hv₂)
        | ok v₂ =>
          have hv : v₁ = v₂ := by
            unfold constVal wOf at hv₁ hv₂
            exact checkFixEval_flag c1 e v₁ v₂ (c2 _) hwfe hv₁ hv₂
          subst hv
          have hok : v₁.width.ok ∧ v₁.bits < v₁.width.card := by
            unfold constVal wOf at hv₁
            exact checkFixEval_ok fl₁ _ _ e v₁ c1 (c2 _) hwfe hv₁
          rw [resolveLoop_step_ok fl₁ exprs name rest res errs₁ e v₁ hg hv₁] at h₁ ⊢
          rw [resolveLoop_step_ok fl₂ exprs name rest res errs₂ e v₁ hg hv₂] at h₂ ⊢
          exact resolveLoop_flag exprs hwf rest _ errs₁ errs₂ (constOK_insert res name v₁ hc hok) h₁ h₂

/-- the constants of a program accepted under both option sets are the same -/
theorem resolveConstants_flag (o : Orders) (exprs : AMap Ex) (hwf : ∀ p ∈ exprs, wfEx p.2 = true) (c₁ c₂ : AMap WireValue)
    (h₁ : resolveConstants fl₁ o exprs = .ok c₁) (h₂ : resolveConstants fl₂ o exprs = .ok c₂) : c₁ = c₂ := by
  unfold resolveConstants at h₁ h₂
  cases hs : (constGraph exprs).sort o with
  | cycle c => rw [hs] at h₁; cases h₁
  | panic => rw [hs] at h₁; cases h₁
  | ok sorted =>
    rw [hs] at h₁ h₂
    simp only at h₁ h₂
    split at h₁
    · rename_i he₁
      split at h₂
      · rename_i he₂
        simp only [Except.ok.injEq] at h₁ h₂
        have n₁ : (resolveLoop fl₁ exprs sorted [] []).2 = [] := by simpa using he₁
        have n₂ : (resolveLoop fl₂ exprs sorted [] []).2 = [] := by simpa using he₂
        rw [← h₁, ← h₂, resolveLoop_flag fl₁ fl₂ exprs hwf sorted [] [] [] (by intro k v hk; simp [AMap.get?] at hk) n₁ n₂]
      · cases h₂
    · cases h₁
end

/-! ### step 3 -/

section
variable (fl₁ fl₂ : Flags) (cls : CharClass) (s1 : Step1) (constants : AMap WireValue)

theorem regEval_flag (hc : ConstOK constants) (bank inName outName : String) (s : Step3) (acc : BankAcc) (r : RegDecl)
    (hwf : wfEx r.default = true)
    (h₁ : (regEval fl₁ constants bank inName outName s acc r).1.errors = [])
    (h₂ : (regEval fl₂ constants bank inName outName s acc r).1.errors = []) :
    regEval fl₁ constants bank inName outName s acc r = regEval fl₂ constants bank inName outName s acc r := by
  obtain ⟨c1, c2⟩ := constCtx_ok constants hc
  unfold regEval at h₁ h₂ ⊢
  simp only at h₁ h₂ ⊢
  cases hv₁ : checkFixEval fl₁ (AMap.toCtx (constants.map fun p => (p.1, p.2.width))) constants.toEnv r.default with
  | error ds =>
    rw [hv₁] at h₁
    simp only [List.append_eq_nil_iff] at h₁
    exact absurd h₁.2 (checkFixEval_err fl₁ _ _ _ _ hv₁)
  | ok v₁ =>
    cases hv₂ : checkFixEval fl₂ (AMap.toCtx (constants.map fun p => (p.1, p.2.width))) constants.toEnv r.default with
    | error ds =>
      rw [hv₂] at h₂
      simp only [List.append_eq_nil_iff] at h₂
      exact absurd h₂.2 (checkFixEval_err fl₂ _ _ _ _ hv₂)
    | ok v₂ =>
      have : v₁ = v₂ := checkFixEval_flag c1 r.default v₁ v₂ (c2 _) hwf hv₁ hv₂
      subst this
      rfl

theorem step3Register_flag (hc : ConstOK constants) (bank : String) (inP outP : Char) (st : Step3 × BankAcc) (r : RegDecl)
    (hwf : wfEx r.default = true)
    (h₁ : (step3Register fl₁ s1 constants bank inP outP st r).1.errors = [])
    (h₂ : (step3Register fl₂ s1 constants bank inP outP st r).1.errors = []) :
    step3Register fl₁ s1 constants bank inP outP st r = step3Register fl₂ s1 constants bank inP outP st r := by
  obtain ⟨s, acc⟩ := st
  unfold step3Register at h₁ h₂ ⊢
  simp only at h₁ h₂ ⊢
  split
  · rfl
  · rename_i hpre
    rw [if_neg hpre] at h₁ h₂
    exact regEval_flag fl₁ fl₂ constants hc bank _ _ _ acc r hwf h₁ h₂

theorem regs_fold_flag (hc : ConstOK constants) (bank : String) (inP outP : Char) : ∀ (regs : List RegDecl) (st : Step3 × BankAcc),
    (∀ r ∈ regs, wfEx r.default = true) →
    (regs.foldl (step3Register fl₁ s1 constants bank inP outP) st).1.errors = [] →
    (regs.foldl (step3Register fl₂ s1 constants bank inP outP) st).1.errors = [] →
    regs.foldl (step3Register fl₁ s1 constants bank inP outP) st = regs.foldl (step3Register fl₂ s1 constants bank inP outP) st
  | [], _, _, _, _ => rfl
  | r :: rest, st, hwf, h₁, h₂ => by
    simp only [List.foldl_cons] at h₁ h₂ ⊢
    have e₁ := regs_fold_errors_back fl₁ s1 constants bank inP outP rest _ h₁
    have e₂ := regs_fold_errors_back fl₂ s1 constants bank inP outP rest _ h₂
    have hstep := step3Register_flag fl₁ fl₂ s1 constants hc bank inP outP st r (hwf r List.mem_cons_self) e₁ e₂
    rw [hstep] at h₁ ⊢
    exact regs_fold_flag hc bank inP outP rest _ (fun x hx => hwf x (List.mem_cons_of_mem _ hx)) h₁ h₂

theorem step3Bank_flag (hc : ConstOK constants) (s : Step3) (b : BankDecl) (hwf : ∀ r ∈ b.regs, wfEx r.default = true)
    (h₁ : (step3Bank fl₁ cls s1 constants s b).errors = []) (h₂ : (step3Bank fl₂ cls s1 constants s b).errors = []) :
    step3Bank fl₁ cls s1 constants s b = step3Bank fl₂ cls s1 constants s b := by
  unfold step3Bank at h₁ h₂ ⊢
  split
  · rename_i inP outP hname
    simp only [hname] at h₁ h₂
    split
    · rfl
    · rename_i hcase
      rw [if_neg hcase] at h₁ h₂
      simp only at h₁ h₂ ⊢
      rw [regs_fold_flag fl₁ fl₂ s1 constants hc b.name inP outP b.regs _ hwf h₁ h₂]
  · rfl

theorem banks_fold_flag (hc : ConstOK constants) : ∀ (banks : List BankDecl) (s : Step3),
    (∀ b ∈ banks, ∀ r ∈ b.regs, wfEx r.default = true) →
    (banks.foldl (step3Bank fl₁ cls s1 constants) s).errors = [] →
    (banks.foldl (step3Bank fl₂ cls s1 constants) s).errors = [] →
    banks.foldl (step3Bank fl₁ cls s1 constants) s = banks.foldl (step3Bank fl₂ cls s1 constants) s
  | [], _, _, _, _ => rfl
  | b :: rest, s, hwf, h₁, h₂ => by
    simp only [List.foldl_cons] at h₁ h₂ ⊢
    have e₁ := banks_fold_errors_back fl₁ cls s1 constants rest _ h₁
    have e₂ := banks_fold_errors_back fl₂ cls s1 constants rest _ h₂
    have hstep := step3Bank_flag fl₁ fl₂ cls s1 constants hc s b (hwf b List.mem_cons_self) e₁ e₂
    rw [hstep] at h₁ ⊢
    exact banks_fold_flag hc rest _ (fun x hx => hwf x (List.mem_cons_of_mem _ hx)) h₁ h₂
end

/-! ### `preprocess_fixed`: the graph and the tables of active components do not depend on the options -/

/-- what `preprocess_fixed` does to the graph and the component tables (the diagnostics left out) -/
def preCore (assignments : AMap Ex) (gi : GBuild × FixedInfo) (f : FixedFunction) : GBuild × FixedInfo :=
  let inNames := f.inWires.map (·.1)
  let missing := inNames.filter (fun n => !assignments.contains n)
  let addActive : GBuild × FixedInfo :=
    match f.outWire with
    | none => (gi.1, { gi.2 with noOutput := gi.2.noOutput ++ [f] })
    | some (out, _) => (inNames.foldl (fun g n => g.insert n out) gi.1, { gi.2 with byOutput := gi.2.byOutput.insert out f })
  if f.mandatory && !missing.isEmpty then addActive
  else if !missing.isEmpty then gi
  else addActive

theorem preprocessOne_core (fl : Flags) (widths : AMap Width) (constants : AMap WireValue) (assignments : AMap Ex)
    (known : List String) (st : PreState) (f : FixedFunction) :
    ((preprocessOne fl widths constants assignments known st f).graph,
     (preprocessOne fl widths constants assignments known st f).info) = preCore assignments (st.graph, st.info) f := by
  unfold preprocessOne preCore
  simp only
  by_cases hk : (f.inWires.map (·.1)).any known.contains = true
  · simp only [hk, if_true]
    cases hw : f.outWire with
    | none => simp only; repeat' split
              all_goals rfl
    | some ow =>
      simp only
      by_cases hcl : (known.contains ow.1 || assignments.contains ow.1) = true
      · simp only [hcl, if_true]; repeat' split
        all_goals rfl
      · simp only [hcl, if_false]; repeat' split
        all_goals rfl
  · simp only [hk, if_false]
    cases hw : f.outWire with
    | none => simp only; repeat' split
              all_goals rfl
    | some ow =>
      simp only
      by_cases hcl : (known.contains ow.1 || assignments.contains ow.1) = true
      · simp only [hcl, if_true]; repeat' split
        all_goals rfl
      · simp only [hcl, if_false]; repeat' split
        all_goals rfl

theorem preprocess_fold_core (fl : Flags) (widths : AMap Width) (constants : AMap WireValue) (assignments : AMap Ex)
    (known : List String) : ∀ (fixed : List FixedFunction) (st : PreState),
    ((fixed.foldl (preprocessOne fl widths constants assignments known) st).graph,
     (fixed.foldl (preprocessOne fl widths constants assignments known) st).info) =
      fixed.foldl (preCore assignments) (st.graph, st.info)
  | [], _ => rfl
  | f :: rest, st => by
    simp only [List.foldl_cons]
    rw [preprocess_fold_core fl widths constants assignments known rest _, preprocessOne_core]

/-! ### `assignments_to_actions` -/

section
variable (fl₁ fl₂ : Flags) (assignments : AMap Ex) (widths : AMap Width) (declared : List String)
  (constants : AMap WireValue) (byOutput : AMap FixedFunction)

theorem loopStep_flag (hΓ : CtxOK widths.toCtx) (hwf : ∀ p ∈ assignments, wfEx p.2 = true) (st : LoopState) (name : String)
    (h₁ : (loopStep fl₁ assignments widths declared constants byOutput st name).Clean)
    (h₂ : (loopStep fl₂ assignments widths declared constants byOutput st name).Clean) :
    loopStep fl₁ assignments widths declared constants byOutput st name =
      loopStep fl₂ assignments widths declared constants byOutput st name := by
  have n₁ := loopStep_clean_nameOK fl₁ assignments widths declared constants byOutput st name h₁
  have n₂ := loopStep_clean_nameOK fl₂ assignments widths declared constants byOutput st name h₂
  unfold nameOK at n₁ n₂
  unfold loopStep
  cases hg : assignments.get? name with
  | none => rfl
  | some expr =>
    rw [hg] at n₁ n₂
    simp only at n₁ n₂ ⊢
    cases hw : widths.get? name with
    | none => rfl
    | some w =>
      rw [hw] at n₁ n₂
      simp only at n₁ n₂ ⊢
      cases hc₁ : check fl₁ widths.toCtx constants.toEnv expr with
      | error ds => rw [hc₁] at n₁; cases n₁
      | ok ew₁ =>
        cases hc₂ : check fl₂ widths.toCtx constants.toEnv expr with
        | error ds => rw [hc₂] at n₂; cases n₂
        | ok ew₂ =>
          have hwfe := hwf (name, expr) (AMap.mem_of_get? _ _ _ hg)
          have hew := check_width_flag hΓ expr ew₁ ew₂ hwfe hc₁ hc₂
          subst hew
          simp only [fixMux_flag hΓ expr ew₁ ew₁ hwfe hc₁ hc₂]

theorem actionsLoop_flag (hΓ : CtxOK widths.toCtx) (hwf : ∀ p ∈ assignments, wfEx p.2 = true) :
    ∀ (names : List String) (st : LoopState),
    (actionsLoop fl₁ assignments widths declared constants byOutput names st).Clean →
    (actionsLoop fl₂ assignments widths declared constants byOutput names st).Clean →
    actionsLoop fl₁ assignments widths declared constants byOutput names st =
      actionsLoop fl₂ assignments widths declared constants byOutput names st
  | [], _, _, _ => rfl
  | name :: rest, st, h₁, h₂ => by
    have e₁ : actionsLoop fl₁ assignments widths declared constants byOutput (name :: rest) st =
        actionsLoop fl₁ assignments widths declared constants byOutput rest
          (loopStep fl₁ assignments widths declared constants byOutput st name) := by simp [actionsLoop]
    have e₂ : actionsLoop fl₂ assignments widths declared constants byOutput (name :: rest) st =
        actionsLoop fl₂ assignments widths declared constants byOutput rest
          (loopStep fl₂ assignments widths declared constants byOutput st name) := by simp [actionsLoop]
    rw [e₁] at h₁ ⊢
    rw [e₂] at h₂ ⊢
    have c₁ := actionsLoop_clean_back fl₁ assignments widths declared constants byOutput rest _ h₁
    have c₂ := actionsLoop_clean_back fl₂ assignments widths declared constants byOutput rest _ h₂
    have hstep := loopStep_flag fl₁ fl₂ assignments widths declared constants byOutput hΓ hwf st name c₁ c₂
    rw [hstep] at h₁ ⊢
    exact actionsLoop_flag hΓ hwf rest _ h₁ h₂
end

/-- the actions of a program accepted under both option sets are the same list -/
theorem assignmentsToActions_flag (fl₁ fl₂ : Flags) (o : Orders) (assignments : AMap Ex) (widths : AMap Width)
    (known : List String) (fixed : List FixedFunction) (declared : List String) (constants : AMap WireValue)
    (acts₁ acts₂ : List Action) (hΓ : CtxOK widths.toCtx) (hwf : ∀ p ∈ assignments, wfEx p.2 = true)
    (h₁ : assignmentsToActions fl₁ o assignments widths known fixed declared constants = .ok acts₁)
    (h₂ : assignmentsToActions fl₂ o assignments widths known fixed declared constants = .ok acts₂) : acts₁ = acts₂ := by
  unfold assignmentsToActions at h₁ h₂
  simp only at h₁ h₂
  have hcore₁ := preprocess_fold_core fl₁ widths constants assignments known fixed { graph := assignGraph assignments known }
  have hcore₂ := preprocess_fold_core fl₂ widths constants assignments known fixed { graph := assignGraph assignments known }
  generalize fixed.foldl (preprocessOne fl₁ widths constants assignments known) { graph := assignGraph assignments known } = pre₁ at h₁ hcore₁
  generalize fixed.foldl (preprocessOne fl₂ widths constants assignments known) { graph := assignGraph assignments known } = pre₂ at h₂ hcore₂
  have hg : pre₁.graph = pre₂.graph ∧ pre₁.info = pre₂.info := by
    have := hcore₁.trans hcore₂.symm
    simp only [Prod.mk.injEq] at this
    exact this
  split at h₁
  · cases h₁
  · split at h₂
    · cases h₂
    · rw [hg.1] at h₁
      cases hs : pre₂.graph.sort o with
      | cycle c => rw [hs] at h₁; cases h₁
      | panic => rw [hs] at h₁; cases h₁
      | ok sorted =>
        rw [hs] at h₁ h₂
        simp only at h₁ h₂
        rw [hg.2] at h₁
        have clean_of : ∀ (st : LoopState) (acts : List Action),
            (if (st.errors ++ st.seenUndeclared.map (fun n => (⟨.UnsetUndeclaredWire, [n]⟩ : Diag))).isEmpty = true
              then (Except.ok (st.result ++ pre₂.info.noOutput.map (·.action)) : C (List Action))
              else .error (st.errors ++ st.seenUndeclared.map (fun n => (⟨.UnsetUndeclaredWire, [n]⟩ : Diag)))) = .ok acts →
            st.Clean ∧ acts = st.result ++ pre₂.info.noOutput.map (·.action) := by
          intro st acts hh
          split at hh
          · rename_i herr
            have : st.errors ++ st.seenUndeclared.map (fun n => (⟨.UnsetUndeclaredWire, [n]⟩ : Diag)) = [] := by simpa using herr
            rw [List.append_eq_nil_iff] at this
            simp only [Except.ok.injEq] at hh
            exact ⟨⟨this.1, by simpa using this.2⟩, hh.symm⟩
          · simp at hh
        obtain ⟨c₁, a₁⟩ := clean_of _ acts₁ h₁
        obtain ⟨c₂, a₂⟩ := clean_of _ acts₂ h₂
        rw [a₁, a₂, actionsLoop_flag fl₁ fl₂ assignments widths declared constants pre₂.info.byOutput hΓ hwf sorted _ c₁ c₂]

/-! ### `Program::new` -/

/-- an accepted program recorded no error in step 3 -/
theorem Program_new_s3clean (fl : Flags) (cls : CharClass) (o : Orders) (stmts : List Stmt) (p : Program)
    (h : Program.new fl cls o y86FixedFunctions stmts = .ok p) :
    (step3Of fl cls (step1Of stmts) p.constants).errors = [] := by
  unfold Program.new at h
  simp only at h
  split at h
  · simp at h
  · split at h
    · simp at h
    · rename_i constants hconst
      split at h
      · simp at h
      · rename_i herrs3
        simp only [Bool.not_eq_true', List.isEmpty_eq_false_iff, ne_eq, Decidable.not_not, List.append_eq_nil_iff] at herrs3
        split at h
        · simp at h
        · split at h
          · simp at h
          · simp only [Except.ok.injEq] at h
            subst h
            exact herrs3.1

/-- **C17 at program level, construction**: a statement list accepted under two sets of strictness options (same
    iteration orders) yields the same program: the same constants, actions, register banks and tables -/
theorem Program_new_flag (fl₁ fl₂ : Flags) (cls : CharClass) (o : Orders) (stmts : List Stmt) (p₁ p₂ : Program)
    (hwf : StmtsWF stmts)
    (h₁ : Program.new fl₁ cls o y86FixedFunctions stmts = .ok p₁)
    (h₂ : Program.new fl₂ cls o y86FixedFunctions stmts = .ok p₂) : p₁ = p₂ := by
  have c₁ := Program_new_s3clean fl₁ cls o stmts p₁ h₁
  have c₂ := Program_new_s3clean fl₂ cls o stmts p₂ h₂
  obtain ⟨s1, k₁, s3₁, kn₁, hyp₁, _, hact₁, hpc₁, hpb₁, _, e1, ec₁, e3₁, e4₁, ed₁, ew₁⟩ := Program_new_decompose' fl₁ cls o stmts p₁ hwf h₁
  obtain ⟨s1', k₂, s3₂, kn₂, hyp₂, _, hact₂, hpc₂, hpb₂, _, e1', ec₂, e3₂, e4₂, ed₂, ew₂⟩ := Program_new_decompose' fl₂ cls o stmts p₂ hwf h₂
  have hs1 : s1 = s1' := by rw [e1, e1']
  subst hs1
  have hk : k₁ = k₂ := resolveConstants_flag fl₁ fl₂ o s1.constantsRaw hyp₁.s1inv.cWf k₁ k₂ ec₁ ec₂
  subst hk
  have hs3 : s3₁ = s3₂ := by
    rw [e3₁, e3₂]
    unfold step3Of
    rw [hpc₁, ← e1] at c₁
    rw [hpc₂, ← e1] at c₂
    unfold step3Of at c₁ c₂
    exact banks_fold_flag fl₁ fl₂ cls s1 k₁ hyp₁.cok s1.banksRaw _ (fun b hb r hr => (hyp₁.s1inv.banks b hb r hr).2) c₁ c₂
  subst hs3
  have hkn : kn₁ = kn₂ := by rw [e4₁, e4₂]
  subst hkn
  have hacts : p₁.actions = p₂.actions :=
    assignmentsToActions_flag fl₁ fl₂ o s1.assignments _ kn₁ y86FixedFunctions s1.declared k₁ p₁.actions p₂.actions
      (finalWires_ctxOK hyp₁) hyp₁.s1inv.aWf hact₁ hact₂
  cases p₁; cases p₂
  simp only at hpc₁ hpc₂ hpb₁ hpb₂ ed₁ ed₂ ew₁ ew₂ hacts
  simp only [Program.mk.injEq]
  exact ⟨by rw [hpc₁, hpc₂], hacts, by rw [hpb₁, hpb₂], by rw [ed₁, ed₂], by rw [ew₁, ew₂]⟩
