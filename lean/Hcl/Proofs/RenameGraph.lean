import Hcl.Graph.TopoSort

/-! Equivariance of the model's topological sort under a bijective renaming of nodes. -/

def KGraph.rename (π π' : Node → Node) (g : KGraph) : KGraph :=
  { nodes := g.nodes.map π, succ := fun u => (g.succ (π' u)).map π, preds := fun v => (g.preds (π' v)).map π,
    numEdges := g.numEdges }
def Graph.rename (π π' : Node → Node) (g : Graph) : Graph :=
  { nodes := g.nodes.map π, succ := fun u => (g.succ (π' u)).map π }
def SortResult.rename (π : Node → Node) : SortResult → SortResult
  | .ok l => .ok (l.map π)
  | .cycle c => .cycle (c.map π)
  | .panic => .panic

namespace RenameGraph

def KStateRename (π π' : Node → Node) (s : KState) : KState :=
  { queue := s.queue.map π, count := fun x => s.count (π' x),
    visited := s.visited.map (fun p => (π p.1, π p.2)), result := s.result.map π }

def KOutRename (π : Node → Node) : KOut → KOut
  | .ok l => .ok (l.map π)
  | .cyclic => .cyclic
  | .panic => .panic
  | .fuel => .fuel

def PMapRename (π π' : Node → Node) (p : PMap) : PMap := fun x => (p (π' x)).map (Option.map π)

def DStateRename (π π' : Node → Node) (s : DState) : DState :=
  { stack := s.stack.map (fun e => (e.1.map π, π e.2)), parents := PMapRename π π' s.parents }

def StepResultRename (π π' : Node → Node) : StepResult → StepResult
  | .cont s => .cont (DStateRename π π' s)
  | .found c => .found (c.map π)
  | .done => .done

section
variable (π π' : Node → Node) (hl : ∀ n, π' (π n) = n) (hr : ∀ n, π (π' n) = n)
include hl

theorem pi_inj {a b : Node} (h : π a = π b) : a = b := by
  have := congrArg π' h
  rwa [hl, hl] at this

theorem mem_map_pair (a b : Node) (l : List (Node × Node)) :
    (π a, π b) ∈ l.map (fun p => (π p.1, π p.2)) ↔ (a, b) ∈ l := by
  constructor
  · intro h
    obtain ⟨⟨c, d⟩, hm, he⟩ := List.mem_map.mp h
    simp only [Prod.mk.injEq] at he
    have h1 := pi_inj π π' hl he.1
    have h2 := pi_inj π π' hl he.2
    subst h1; subst h2; exact hm
  · intro h
    exact List.mem_map.mpr ⟨(a, b), h, rfl⟩

include hr

theorem inv_eq_iff (x k : Node) : π' x = k ↔ x = π k := by
  constructor
  · intro h; rw [← h, hr]
  · intro h; rw [h, hl]

theorem cset_rename (c : Node → Nat) (k : Node) (v : Nat) :
    cset (fun x => c (π' x)) (π k) v = fun x => cset c k v (π' x) := by
  funext x
  unfold cset
  by_cases h : x = π k
  · rw [if_pos h, if_pos ((inv_eq_iff π π' hl hr x k).mpr h)]
  · rw [if_neg h, if_neg (fun h' => h ((inv_eq_iff π π' hl hr x k).mp h'))]

theorem relax_rename (cur : Node) (os : List Node) (s : KState) :
    relax (π cur) (os.map π) (KStateRename π π' s) = (relax cur os s).map (KStateRename π π') := by
  induction os generalizing s with
  | nil => rfl
  | cons o os ih =>
    rw [List.map_cons, relax, relax]
    have hm : ((π cur, π o) ∈ (KStateRename π π' s).visited) ↔ (cur, o) ∈ s.visited :=
      mem_map_pair π π' hl cur o s.visited
    have hc : (KStateRename π π' s).count (π o) = s.count o := by
      show s.count (π' (π o)) = _
      rw [hl]
    by_cases h1 : (cur, o) ∈ s.visited
    · rw [if_pos h1, if_pos (hm.mpr h1)]; exact ih s
    · rw [if_neg h1, if_neg (fun h => h1 (hm.mp h)), hc]
      by_cases h2 : s.count o = 0
      · rw [if_pos h2, if_pos h2]; rfl
      · rw [if_neg h2, if_neg h2]
        dsimp only
        rw [← ih]
        congr 1
        unfold KStateRename
        simp only [KState.mk.injEq, List.map_cons, and_true]
        refine ⟨?_, ?_⟩
        · split
          · simp only [List.map_append, List.map_cons, List.map_nil]
          · rfl
        · exact cset_rename π π' hl hr s.count o (s.count o - 1)

omit hr in
theorem succ_rename (g : KGraph) (cur : Node) :
    (g.rename π π').succ (π cur) = (g.succ cur).map π := by
  show (g.succ (π' (π cur))).map π = _
  rw [hl]

theorem kloop_rename (g : KGraph) (fuel : Nat) (s : KState) :
    kloop (g.rename π π') fuel (KStateRename π π' s) = KOutRename π (kloop g fuel s) := by
  induction fuel generalizing s with
  | zero => rfl
  | succ fuel ih =>
    obtain ⟨queue, count, visited, result⟩ := s
    cases queue with
    | nil =>
      simp only [kloop, KStateRename, List.map_nil, List.length_map]
      show (if visited.length ≠ g.numEdges then KOut.cyclic else KOut.ok (result.map π)) = _
      split <;> rfl
    | cons cur q =>
      simp only [kloop, KStateRename, List.map_cons]
      rw [succ_rename π π' hl g cur]
      have := relax_rename π π' hl hr cur (g.succ cur)
        { queue := q, count := count, visited := visited, result := result ++ [cur] }
      simp only [KStateRename, List.map_append, List.map_cons, List.map_nil] at this
      rw [this]
      cases hrel : relax cur (g.succ cur)
        { queue := q, count := count, visited := visited, result := result ++ [cur] } with
      | none => rfl
      | some s' =>
        simp only [Option.map_some]
        exact ih s'

omit hr in
theorem kinit_rename (g : KGraph) : kinit (g.rename π π') = KStateRename π π' (kinit g) := by
  unfold kinit KStateRename KGraph.rename
  simp only [KState.mk.injEq, List.map_nil, and_true, List.length_map]
  rw [List.filter_map]
  congr 2
  funext n
  simp only [Function.comp, hl, List.isEmpty_map]

theorem kahn_rename (g : KGraph) : kahn (g.rename π π') = KOutRename π (kahn g) := by
  unfold kahn
  rw [kinit_rename π π' hl]
  have : (g.rename π π').nodes.length = g.nodes.length := by
    show (g.nodes.map π).length = _
    rw [List.length_map]
  rw [this]
  exact kloop_rename π π' hl hr g _ _

/-! ### DFS half -/

theorem pmap_set_rename (p : PMap) (k : Node) (v : Option Node) :
    (PMapRename π π' p).set (π k) (v.map π) = PMapRename π π' (p.set k v) := by
  funext x
  show (if x = π k then some (v.map π) else (p (π' x)).map (Option.map π)) =
    (if π' x = k then some v else p (π' x)).map (Option.map π)
  by_cases h : x = π k
  · rw [if_pos h, if_pos ((inv_eq_iff π π' hl hr x k).mpr h)]; rfl
  · rw [if_neg h, if_neg (fun h' => h ((inv_eq_iff π π' hl hr x k).mp h'))]

omit hr in
theorem pmap_rename_apply (p : PMap) (x : Node) :
    PMapRename π π' p (π x) = (p x).map (Option.map π) := by
  show (p (π' (π x))).map (Option.map π) = _
  rw [hl]

omit hr in
theorem walk_rename (p : PMap) (cur : Node) (fuel : Nat) (last : Node) (acc : List Node) :
    walk (PMapRename π π' p) (π cur) fuel (π last) (acc.map π) = (walk p cur fuel last acc).map π := by
  induction fuel generalizing last acc with
  | zero => rfl
  | succ fuel ih =>
    rw [walk, walk]
    by_cases h : last = cur
    · rw [if_pos h, if_pos (congrArg π h)]
    · rw [if_neg h, if_neg (fun h' => h (pi_inj π π' hl h')), pmap_rename_apply π π' hl]
      cases hp : p last with
      | none => rfl
      | some o =>
        cases o with
        | none => rfl
        | some g =>
          simp only [Option.map_some]
          exact ih g (g :: acc)

omit hr in
theorem dsucc_rename (g : Graph) (cur : Node) :
    (g.rename π π').succ (π cur) = (g.succ cur).map π := by
  show (g.succ (π' (π cur))).map π = _
  rw [hl]

omit hr in
theorem stack_rename (g : Graph) (cur : Node) (rest : List (Option Node × Node)) (b : Bool) :
    (if b = true then ((g.rename π π').succ (π cur)).reverse.map (fun o => (some (π cur), o)) ++
        rest.map (fun e => (e.1.map π, π e.2)) else rest.map (fun e => (e.1.map π, π e.2))) =
    (if b = true then (g.succ cur).reverse.map (fun o => (some cur, o)) ++ rest else rest).map
      (fun e => (e.1.map π, π e.2)) := by
  cases b with
  | false => rfl
  | true =>
    simp only [if_true]
    rw [dsucc_rename π π' hl, List.map_append, List.map_map, ← List.map_reverse, List.map_map]
    rfl

theorem step_rename (g : Graph) (n : Nat) (s : DState) :
    step (g.rename π π') n (DStateRename π π' s) = StepResultRename π π' (step g n s) := by
  obtain ⟨stack, p⟩ := s
  cases stack with
  | nil => rfl
  | cons e rest =>
    obtain ⟨mp, cur⟩ := e
    have hfresh : (PMapRename π π' p (π cur)).isNone = (p cur).isNone := by
      rw [pmap_rename_apply π π' hl]; cases p cur <;> rfl
    have hst := stack_rename π π' hl g cur rest (p cur).isNone
    cases mp with
    | none =>
      simp only [step, DStateRename, List.map_cons, Option.map_none, hfresh, StepResultRename]
      rw [hst]
      have := pmap_set_rename π π' hl hr p cur none
      simp only [Option.map_none] at this
      rw [this]
    | some parent =>
      simp only [step, DStateRename, List.map_cons, Option.map_some, hfresh]
      rw [hst]
      cases hf : (p cur).isNone with
      | true =>
        simp only [Bool.not_true, Bool.false_eq_true, if_false, StepResultRename, DStateRename]
        have := pmap_set_rename π π' hl hr p cur (some parent)
        simp only [Option.map_some] at this
        rw [this]
      | false =>
        simp only [Bool.not_false, if_true]
        have hw := walk_rename π π' hl p cur n parent [parent]
        simp only [List.map_cons, List.map_nil] at hw
        rw [hw]
        cases hwk : walk p cur n parent [parent] with
        | nil => rfl
        | cons h t =>
          simp only [List.map_cons]
          by_cases hh : h = cur
          · rw [if_pos hh, if_pos (congrArg π hh)]; rfl
          · rw [if_neg hh, if_neg (fun h' => hh (pi_inj π π' hl h'))]; rfl

theorem run_rename (g : Graph) (n fuel : Nat) (s : DState) :
    run (g.rename π π') n fuel (DStateRename π π' s) =
      (run g n fuel s).map (Option.map (List.map π)) := by
  induction fuel generalizing s with
  | zero => rfl
  | succ fuel ih =>
    rw [run, run, step_rename π π' hl hr]
    cases hs : step g n s with
    | done => rfl
    | found c => rfl
    | cont s' => exact ih s'

theorem findCycle_rename (g : Graph) :
    findCycle (g.rename π π') = (findCycle g).map (Option.map (List.map π)) := by
  unfold findCycle
  have hlen : (g.rename π π').nodes.length = g.nodes.length := by
    show (g.nodes.map π).length = _
    rw [List.length_map]
  have hsum : (g.rename π π').nodes.map (fun u => ((g.rename π π').succ u).length) =
      g.nodes.map (fun u => (g.succ u).length) := by
    show (g.nodes.map π).map (fun u => ((g.succ (π' u)).map π).length) = _
    rw [List.map_map]
    congr 1
    funext u
    simp only [Function.comp, List.length_map, hl]
  have hinit : (⟨(g.rename π π').nodes.map (fun u => (none, u)), fun _ => none⟩ : DState) =
      DStateRename π π' ⟨g.nodes.map (fun u => (none, u)), fun _ => none⟩ := by
    unfold DStateRename
    simp only [DState.mk.injEq]
    refine ⟨?_, ?_⟩
    · show (g.nodes.map π).map (fun u => ((none : Option Node), u)) = _
      rw [List.map_map, List.map_map]
      rfl
    · rfl
  simp only [hlen, hsum]
  rw [hinit]
  exact run_rename π π' hl hr g _ _ _

end

end RenameGraph

theorem topologicalSort_rename (π π' : Node → Node) (hl : ∀ n, π' (π n) = n) (hr : ∀ n, π (π' n) = n)
    (kg : KGraph) (dg : Graph) :
    topologicalSort (kg.rename π π') (dg.rename π π') = (topologicalSort kg dg).rename π := by
  unfold topologicalSort
  rw [RenameGraph.kahn_rename π π' hl hr, RenameGraph.findCycle_rename π π' hl hr]
  cases kahn kg with
  | ok order => rfl
  | panic => rfl
  | fuel => rfl
  | cyclic =>
    cases findCycle dg with
    | none => rfl
    | some o =>
      cases o with
      | none => rfl
      | some c => rfl

#print axioms topologicalSort_rename
