import Hcl.Ast

/-! Model of lexer.rs.  Input text is a `List Char`; positions are UTF-8 byte offsets
    (`char_indices`).  Rust's Unicode predicates are the parameter `cls`. -/

namespace Lexer

structure CharCls where
  isWhitespace : Char → Bool
  isAlphabetic : Char → Bool
  isAlphanumeric : Char → Bool

/-- ASCII behaviour of `char::is_whitespace/is_alphabetic/is_alphanumeric` -/
def asciiCls : CharCls :=
  { isWhitespace := fun c => c == ' ' || ('\t' ≤ c && c ≤ '\r'),
    isAlphabetic := fun c => ('a' ≤ c && c ≤ 'z') || ('A' ≤ c && c ≤ 'Z'),
    isAlphanumeric := fun c => ('a' ≤ c && c ≤ 'z') || ('A' ≤ c && c ≤ 'Z') || ('0' ≤ c && c ≤ '9') }

inductive Tok where
  | AndAnd | OrOr | Equal | NotEqual | GreaterEqual | Greater | LessEqual | Less | Assign
  | RightShift | LeftShift | Comma | Semicolon | Plus | Minus | And | Or | Xor | Times | Divide | Not
  | Constant (v : WireValue)
  | OpenParen | CloseParen | OpenBrace | CloseBrace | OpenBracket | CloseBracket
  | Colon | Complement | DotDot | Wire | Const | Register | In
  | Identifier (name : String)
  deriving Repr, DecidableEq, Inhabited

inductive LexErr where
  | lexical (loc : Nat)
  | invalidConstant (s e : Nat)
  | unterminatedComment (loc : Nat)
  deriving Repr, DecidableEq

def isHex (c : Char) : Bool := ('0' ≤ c && c ≤ '9') || ('a' ≤ c && c ≤ 'f') || ('A' ≤ c && c ≤ 'F')
def isDec (c : Char) : Bool := '0' ≤ c && c ≤ '9'
def isBin (c : Char) : Bool := '0' ≤ c && c ≤ '1'

def size (c : Char) : Nat := c.utf8Size

def sizeOf' (cs : List Char) : Nat := (cs.map size).sum

/-- `get_while`: the longest prefix satisfying `f`, with its length in bytes -/
def spanWhile (f : Char → Bool) : List Char → List Char × List Char
  | [] => ([], [])
  | c :: rest => if f c then let (a, b) := spanWhile f rest; (c :: a, b) else ([], c :: rest)

def digitVal (c : Char) : Nat :=
  if '0' ≤ c && c ≤ '9' then c.toNat - 48 else if 'a' ≤ c && c ≤ 'f' then c.toNat - 87 else c.toNat - 55

/-- `u128::from_str_radix`: `none` on overflow -/
def parseRadix (radix : Nat) (ds : List Char) : Option Nat :=
  let v := ds.foldl (fun acc c => acc * radix + digitVal c) 0
  if v < 2 ^ 128 then some v else none

def keyword (name : String) : Tok :=
  if name == "wire" then .Wire else if name == "const" then .Const else if name == "register" then .Register
  else if name == "in" then .In else .Identifier name

/-- `handle_constant(i)`: `first` is the digit at byte offset `i`, `rest` what follows it; `total` the input length in bytes.
    Returns the token with its span and the remaining input with its offset. -/
def handleConstant (i : Nat) (first : Char) (rest : List Char) (total : Nat) :
    Except LexErr ((Nat × Tok × Nat) × List Char × Nat) :=
  let single : Except LexErr ((Nat × Tok × Nat) × List Char × Nat) :=
    .ok ((i, .Constant ⟨first.toNat - 48, .unlimited⟩, i + 1), rest, i + 1)
  match rest with
  | [] => single
  | c2 :: rest2 =>
    if c2 == 'x' then
      -- expect_or_error(is_hexadecimal_char) consumes one character
      match rest2 with
      | [] => .error (.lexical total)
      | h :: _ =>
        if !isHex h then .error (.lexical (i + 2)) else
        let (digits, after) := spanWhile isHex rest2
        let e := i + 2 + sizeOf' digits
        match parseRadix 16 digits with
        | some v => .ok ((i, .Constant ⟨v, .unlimited⟩, e), after, e)
        | none => .error (.invalidConstant i e)
    else if c2 == 'b' then
      match rest2 with
      | [] => .error (.lexical total)
      | h :: _ =>
        if !isBin h then .error (.lexical (i + 2)) else
        let (digits, after) := spanWhile isBin rest2
        let e := i + 2 + sizeOf' digits
        match after with
        | d :: _ => if isDec d then .error (.lexical e) else
            if digits.length > 128 then .error (.invalidConstant i e) else
            (match parseRadix 2 digits with
             | some v => .ok ((i, .Constant ⟨v, .bits digits.length⟩, e), after, e)
             | none => .error (.invalidConstant i e))
        | [] =>
            if digits.length > 128 then .error (.invalidConstant i e) else
            (match parseRadix 2 digits with
             | some v => .ok ((i, .Constant ⟨v, .bits digits.length⟩, e), after, e)
             | none => .error (.invalidConstant i e))
    else if isDec c2 then
      let (digits, after) := spanWhile isDec (first :: rest)
      let e := i + sizeOf' digits
      match parseRadix 10 digits with
      | some v => .ok ((i, .Constant ⟨v, .unlimited⟩, e), after, e)
      | none => .error (.invalidConstant i e)
    else single

/-- skip a `/* ... */` comment; `cs` starts right after the `/` (at the `*`); `none` = unterminated -/
def skipBlock : Nat → List Char → Nat → Option (List Char × Nat)
  | 0, _, _ => none
  | fuel+1, cs, off =>
    let (skipped, after) := spanWhile (· != '*') cs
    let off := off + sizeOf' skipped
    match after with
    | [] => none
    | _star :: after2 =>
      match after2 with
      | '/' :: after3 => some (after3, off + 2)
      | _ => skipBlock fuel after2 (off + 1)

inductive Item where
  | tok (s : Nat) (t : Tok) (e : Nat)
  | err (e : LexErr)
  deriving Repr, DecidableEq

/-- the iterator, run to the end of input or to the first lexical error -/
def lexAll (cls : CharCls) (total : Nat) : Nat → List Char → Nat → List Item
  | 0, _, _ => []
  | fuel+1, cs, off =>
    match cs with
    | [] => []
    | c :: rest =>
      let i := off
      let next := off + size c
      if cls.isWhitespace c then lexAll cls total fuel rest next
      else if cls.isAlphabetic c || c == '_' then
        let (more, after) := spanWhile (fun d => cls.isAlphanumeric d || d == '_') rest
        let e := next + sizeOf' more
        .tok i (keyword (String.ofList (c :: more))) e :: lexAll cls total fuel after e
      else if isDec c then
        match handleConstant i c rest total with
        | .ok ((s, t, e), after, off') => .tok s t e :: lexAll cls total fuel after off'
        | .error err => [.err err]
      else
        let simple (t : Tok) : List Item := .tok i t (i + 1) :: lexAll cls total fuel rest next
        let choose (dflt : Tok) (opts : List (Char × Tok)) : List Item :=
          match rest with
          | d :: rest2 =>
            match opts.find? (fun o => o.1 == d) with
            | some o => .tok i o.2 (i + 2) :: lexAll cls total fuel rest2 (next + size d)
            | none => .tok i dflt (i + 1) :: lexAll cls total fuel rest next
          | [] => .tok i dflt (i + 1) :: lexAll cls total fuel rest next
        if c == '#' then
          let (skipped, after) := spanWhile (fun d => d != '\n' && d != '\r') rest
          lexAll cls total fuel after (next + sizeOf' skipped)
        else if c == '/' then
          match rest with
          | '/' :: _ =>
            let (skipped, after) := spanWhile (fun d => d != '\n' && d != '\r') rest
            lexAll cls total fuel after (next + sizeOf' skipped)
          | '*' :: _ =>
            match skipBlock (rest.length + 1) rest next with
            | some (after, off') => lexAll cls total fuel after off'
            | none => [.err (.unterminatedComment i)]
          | _ => simple .Divide
        else if c == '&' then choose .And [('&', .AndAnd)]
        else if c == '|' then choose .Or [('|', .OrOr)]
        else if c == '=' then choose .Assign [('=', .Equal)]
        else if c == '>' then choose .Greater [('>', .RightShift), ('=', .GreaterEqual)]
        else if c == '<' then choose .Less [('<', .LeftShift), ('=', .LessEqual)]
        else if c == '!' then choose .Not [('=', .NotEqual)]
        else if c == ':' then simple .Colon
        else if c == '~' then simple .Complement
        else if c == ',' then simple .Comma
        else if c == ';' then simple .Semicolon
        else if c == '.' then
          match rest with
          | '.' :: rest2 => .tok i .DotDot (i + 2) :: lexAll cls total fuel rest2 (next + 1)
          | _ => [.err (.lexical i)]
        else if c == '+' then simple .Plus
        else if c == '-' then simple .Minus
        else if c == '^' then simple .Xor
        else if c == '*' then simple .Times
        else if c == '(' then simple .OpenParen
        else if c == ')' then simple .CloseParen
        else if c == '[' then simple .OpenBracket
        else if c == ']' then simple .CloseBracket
        else if c == '{' then simple .OpenBrace
        else if c == '}' then simple .CloseBrace
        else [.err (.lexical i)]

def lex (cls : CharCls) (input : List Char) : List Item :=
  lexAll cls (sizeOf' input) (input.length + 1) input 0

end Lexer
