import Hcl.Generated

/-! Tie between the tables extracted from /repo on this run (`Hcl/Generated.lean`) and the values the
    hand-written model was validated against.  A change of the source shows up as a failing `rfl` here. -/

namespace Tie.Fixed

theorem fixedFunctions : Generated.fixedFunctions = ([("in:Stat:3", "out:-", "setstatus", "-", "true"), ("in:pc:64", "out:i10bytes:80", "readimem", "-", "true"), ("in:mem_addr:64,mem_readbit:1", "out:mem_output:64", "readmem", "mem_readbit", "false"), ("in:mem_addr:64,mem_input:64,mem_writebit:1", "out:-", "writemem", "mem_writebit", "false"), ("in:reg_srcA:4", "out:reg_outputA:64", "readreg", "-", "false"), ("in:reg_srcB:4", "out:reg_outputB:64", "readreg", "-", "false"), ("in:reg_dstE:4,reg_inputE:64", "out:-", "writereg", "-", "false"), ("in:reg_dstM:4,reg_inputM:64", "out:-", "writereg", "-", "false")] : List (String × String × String × String × String)) := by rfl

end Tie.Fixed
