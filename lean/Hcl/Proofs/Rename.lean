import Hcl.Theorems.C12
open Rust

/-! Renaming the wires of a program consistently (a bijection `π` of names, given with its inverse `π'`):
    definitions, and the equivariance of the list/table primitives, of `refs`, `ev`, `check`, `fixMux` and
    `checkFixEval`. -/

/-! ### renaming the syntax -/

mutual
def Ex.rename (π : String → String) : Ex → Ex
  | .const v => .const v
  | .bin op l r => .bin op (l.rename π) (r.rename π)
  | .un op e => .un op (e.rename π)
  | .wire n => .wire (π n)
  | .slice e lo hi => .slice (e.rename π) lo hi
  | .concat l r => .concat (l.rename π) (r.rename π)
  | .mux opts => .mux (opts.rename π)
  | .inSet e items => .inSet (e.rename π) (items.rename π)
def Opts.rename (π : String → String) : Opts → Opts
  | .nil => .nil
  | .cons c v rest => .cons (c.rename π) (v.rename π) (rest.rename π)
def Exs.rename (π : String → String) : Exs → Exs
  | .nil => .nil
  | .cons e rest => .cons (e.rename π) (rest.rename π)
end

def RegDecl.rename (π : String → String) (r : RegDecl) : RegDecl := { r with default := r.default.rename π }
def BankDecl.rename (π : String → String) (b : BankDecl) : BankDecl := { b with regs := b.regs.map (RegDecl.rename π) }

/-- rename every wire (and constant) of a statement; bank names and register names are kept -/
def Stmt.rename (π : String → String) : Stmt → Stmt
  | .consts ds => .consts (ds.map fun d => { d with name := π d.name, value := d.value.rename π })
  | .wires ds => .wires (ds.map fun d => { d with name := π d.name })
  | .assigns as => .assigns (as.map fun a => { a with names := a.names.map π, value := a.value.rename π })
  | .bank b => .bank { b with regs := b.regs.map fun r => { r with default := r.default.rename π } }

/-- `π` leaves alone the names the simulator constructs itself: the built-in wires, the two signal names of every
    register of a declared bank (`step3Register`), and the two control signals of every declared bank (`step3Bank`) -/
structure Fixes (π : String → String) (stmts : List Stmt) : Prop where
  builtin : ∀ n ∈ fixedNamesOf y86FixedFunctions, π n = n
  regs : ∀ b, Stmt.bank b ∈ stmts → ∀ inP outP, b.name.toList = [inP, outP] → ∀ c, c = inP ∨ c = outP → ∀ r ∈ b.regs,
    π (String.ofList [c, '_'] ++ r.name) = String.ofList [c, '_'] ++ r.name
  ctl : ∀ b, Stmt.bank b ∈ stmts → ∀ inP outP, b.name.toList = [inP, outP] →
    π ("stall_" ++ String.ofList [outP]) = "stall_" ++ String.ofList [outP] ∧
    π ("bubble_" ++ String.ofList [outP]) = "bubble_" ++ String.ofList [outP]

/-! ### renaming diagnostics and evaluation errors -/

/-- the names in a diagnostic are renamed, except where they are not wire names: a bank name, a bank and a register
    name, or the built-in wires listed around a `/` separator -/
def Diag.rename (π : String → String) (d : Diag) : Diag :=
  match d.kind with
  | .InvalidRegisterBankName | .DuplicateRegister | .MismatchedRegisterDefaultWidths | .PartialFixedInput => d
  | _ => { d with names := d.names.map π }

def Err.rename (π : String → String) : Err → Err
  | .undeclaredWireRead n => .undeclaredWireRead (π n)
  | e => e

/-- a result with its diagnostics renamed and its value mapped -/
def crn {α β : Type} (π : String → String) (f : α → β) : C α → C β
  | .ok a => .ok (f a)
  | .error ds => .error (ds.map (Diag.rename π))

def ern {α β : Type} (π : String → String) (f : α → β) : E α → E β
  | .ok a => .ok (f a)
  | .error e => .error (e.rename π)

theorem Err.toDiag_rename (π : String → String) (e : Err) : (e.rename π).toDiag = Diag.rename π e.toDiag := by
  cases e <;> rfl

theorem panicDiag_rename (π : String → String) : panicDiag.map (Diag.rename π) = panicDiag := rfl

/-! ### lists under an injective map -/

def Inj (π : String → String) : Prop := ∀ a b, π a = π b → a = b

theorem inj_of_left {π π' : String → String} (hl : ∀ n, π' (π n) = n) : Inj π := by
  intro a b h
  have := congrArg π' h
  rwa [hl, hl] at this

theorem contains_map_inj {π : String → String} (hi : Inj π) (l : List String) (k : String) :
    (l.map π).contains (π k) = l.contains k := by
  induction l with
  | nil => rfl
  | cons a l ih =>
    simp only [List.map_cons, List.contains_cons, ih]
    congr 1
    by_cases h : k = a
    · subst h; simp
    · have h1 : (k == a) = false := by simpa using h
      have h2 : (π k == π a) = false := by simpa using fun e => h (hi _ _ e)
      rw [h1, h2]

theorem mem_map_inj {π : String → String} (hi : Inj π) (l : List String) (k : String) : π k ∈ l.map π ↔ k ∈ l := by
  constructor
  · intro h
    obtain ⟨a, ha, e⟩ := List.mem_map.mp h
    rw [← hi _ _ e]; exact ha
  · exact List.mem_map_of_mem

theorem setInsert_map {π : String → String} (hi : Inj π) (l : List String) (k : String) :
    setInsert (l.map π) (π k) = (setInsert l k).map π := by
  unfold setInsert
  rw [contains_map_inj hi]
  split <;> simp

theorem foldl_setInsert_map {π : String → String} (hi : Inj π) (l acc : List String) :
    (l.map π).foldl setInsert (acc.map π) = (l.foldl setInsert acc).map π := by
  induction l generalizing acc with
  | nil => rfl
  | cons a l ih => simp only [List.map_cons, List.foldl_cons, setInsert_map hi, ih]

theorem dedupS_map {π : String → String} (hi : Inj π) (l : List String) : dedupS (l.map π) = (dedupS l).map π := by
  unfold dedupS
  exact foldl_setInsert_map hi l []

theorem count_map_inj {π : String → String} (hi : Inj π) (l : List String) (k : String) :
    (l.map π).count (π k) = l.count k := by
  induction l with
  | nil => rfl
  | cons a l ih =>
    simp only [List.map_cons, List.count_cons, ih]
    congr 1
    by_cases h : a = k
    · subst h; simp
    · have h1 : (a == k) = false := by simpa using h
      have h2 : (π a == π k) = false := by simpa using fun e => h (hi _ _ e)
      rw [h1, h2]

/-! ### tables -/

/-- rename the keys of a table and map its values -/
def AMap.rn {α β : Type} (π : String → String) (f : α → β) (m : AMap α) : AMap β := m.map fun p => (π p.1, f p.2)

namespace AMap

theorem rn_lookup {α β : Type} {π : String → String} (hi : Inj π) (f : α → β) (m : AMap α) (k : String) :
    (m.rn π f).lookup (π k) = (m.lookup k).map f := by
  induction m with
  | nil => rfl
  | cons p rest ih =>
    obtain ⟨a, b⟩ := p
    simp only [rn, List.map_cons, List.lookup] at ih ⊢
    by_cases h : k = a
    · subst h; simp
    · have h1 : (k == a) = false := by simpa using h
      have h2 : (π k == π a) = false := by simpa using fun e => h (hi _ _ e)
      rw [h1, h2]; exact ih

theorem rn_get? {α β : Type} {π : String → String} (hi : Inj π) (f : α → β) (m : AMap α) (k : String) :
    (m.rn π f).get? (π k) = (m.get? k).map f := rn_lookup hi f m k

theorem rn_keys {α β : Type} (π : String → String) (f : α → β) (m : AMap α) : (m.rn π f).keys = m.keys.map π := by
  simp [rn, keys, List.map_map, Function.comp_def]

theorem rn_contains {α β : Type} {π : String → String} (hi : Inj π) (f : α → β) (m : AMap α) (k : String) :
    (m.rn π f).contains (π k) = m.contains k := by
  rw [contains_eq_isSome, contains_eq_isSome, rn_lookup hi]
  cases m.lookup k <;> rfl

theorem rn_insert {α β : Type} {π : String → String} (hi : Inj π) (f : α → β) (m : AMap α) (k : String) (v : α) :
    (m.insert k v).rn π f = (m.rn π f).insert (π k) (f v) := by
  unfold insert
  rw [rn_contains hi]
  split
  · simp only [rn, List.map_map]
    apply List.map_congr_left
    intro p _
    simp only [Function.comp_def]
    by_cases h : p.1 = k
    · have h1 : (p.1 == k) = true := by simpa using h
      have h2 : (π p.1 == π k) = true := by simpa using congrArg π h
      simp only [h1, h2, if_true]
    · have h1 : (p.1 == k) = false := by simpa using h
      have h2 : (π p.1 == π k) = false := by simpa using fun e => h (hi _ _ e)
      simp only [h1, h2, Bool.false_eq_true, if_false]
  · simp [rn]

theorem rn_toEnv {π : String → String} (hi : Inj π) (m : AMap WireValue) (k : String) :
    (m.rn π id).toEnv (π k) = m.toEnv k := by
  unfold toEnv
  rw [rn_lookup hi]; simp

theorem rn_toCtx {π : String → String} (hi : Inj π) (m : AMap Width) (k : String) :
    (m.rn π id).toCtx (π k) = m.toCtx k := by
  unfold toCtx
  rw [rn_lookup hi]; simp

theorem rn_rn {α β γ : Type} (π ρ : String → String) (f : α → β) (g : β → γ) (m : AMap α) :
    (m.rn π f).rn ρ g = m.rn (fun n => ρ (π n)) (fun a => g (f a)) := by
  simp [rn, List.map_map, Function.comp_def]

theorem rn_id {α : Type} (m : AMap α) : m.rn (fun n => n) (fun a => a) = m := by
  simp [rn]

end AMap

/-! ### expressions -/

mutual
theorem refs_rename (π : String → String) : ∀ (e : Ex), refs (e.rename π) = (refs e).map π
  | .const _ => by simp [Ex.rename, refs]
  | .bin _ l r => by simp [Ex.rename, refs, refs_rename π l, refs_rename π r]
  | .un _ e => by simp [Ex.rename, refs, refs_rename π e]
  | .wire n => by simp [Ex.rename, refs]
  | .slice e _ _ => by simp [Ex.rename, refs, refs_rename π e]
  | .concat l r => by simp [Ex.rename, refs, refs_rename π l, refs_rename π r]
  | .mux o => by simp [Ex.rename, refs, refsOpts_rename π o]
  | .inSet e items => by simp [Ex.rename, refs, refs_rename π e, refsExs_rename π items]
theorem refsOpts_rename (π : String → String) : ∀ (o : Opts), refsOpts (o.rename π) = (refsOpts o).map π
  | .nil => by simp [Opts.rename, refsOpts]
  | .cons c v rest => by simp [Opts.rename, refsOpts, refs_rename π c, refs_rename π v, refsOpts_rename π rest]
theorem refsExs_rename (π : String → String) : ∀ (o : Exs), refsExs (o.rename π) = (refsExs o).map π
  | .nil => by simp [Exs.rename, refsExs]
  | .cons e rest => by simp [Exs.rename, refsExs, refs_rename π e, refsExs_rename π rest]
end

theorem occurrences_rename {π : String → String} (hi : Inj π) (e : Ex) (n : String) :
    occurrences (e.rename π) (π n) = occurrences e n := by
  unfold occurrences
  rw [refs_rename, count_map_inj hi]

mutual
theorem rename_rename (π ρ : String → String) : ∀ (e : Ex), (e.rename π).rename ρ = e.rename (fun n => ρ (π n))
  | .const _ => by simp [Ex.rename]
  | .bin _ l r => by simp [Ex.rename, rename_rename π ρ l, rename_rename π ρ r]
  | .un _ e => by simp [Ex.rename, rename_rename π ρ e]
  | .wire n => by simp [Ex.rename]
  | .slice e _ _ => by simp [Ex.rename, rename_rename π ρ e]
  | .concat l r => by simp [Ex.rename, rename_rename π ρ l, rename_rename π ρ r]
  | .mux o => by simp [Ex.rename, renameOpts_rename π ρ o]
  | .inSet e items => by simp [Ex.rename, rename_rename π ρ e, renameExs_rename π ρ items]
theorem renameOpts_rename (π ρ : String → String) : ∀ (o : Opts), (o.rename π).rename ρ = o.rename (fun n => ρ (π n))
  | .nil => by simp [Opts.rename]
  | .cons c v rest => by simp [Opts.rename, rename_rename π ρ c, rename_rename π ρ v, renameOpts_rename π ρ rest]
theorem renameExs_rename (π ρ : String → String) : ∀ (o : Exs), (o.rename π).rename ρ = o.rename (fun n => ρ (π n))
  | .nil => by simp [Exs.rename]
  | .cons e rest => by simp [Exs.rename, rename_rename π ρ e, renameExs_rename π ρ rest]
end

mutual
theorem rename_id : ∀ (e : Ex), e.rename (fun n => n) = e
  | .const _ => by simp [Ex.rename]
  | .bin _ l r => by simp [Ex.rename, rename_id l, rename_id r]
  | .un _ e => by simp [Ex.rename, rename_id e]
  | .wire n => by simp [Ex.rename]
  | .slice e _ _ => by simp [Ex.rename, rename_id e]
  | .concat l r => by simp [Ex.rename, rename_id l, rename_id r]
  | .mux o => by simp [Ex.rename, renameOpts_id o]
  | .inSet e items => by simp [Ex.rename, rename_id e, renameExs_id items]
theorem renameOpts_id : ∀ (o : Opts), o.rename (fun n => n) = o
  | .nil => by simp [Opts.rename]
  | .cons c v rest => by simp [Opts.rename, rename_id c, rename_id v, renameOpts_id rest]
theorem renameExs_id : ∀ (o : Exs), o.rename (fun n => n) = o
  | .nil => by simp [Exs.rename]
  | .cons e rest => by simp [Exs.rename, rename_id e, renameExs_id rest]
end

/-! ### the evaluator -/

theorem ern_bind {α β α' β' : Type} (π : String → String) (f : α → α') (g : β → β') (x : E α) (k : α → E β) (k' : α' → E β')
    (h : ∀ a, k' (f a) = ern π g (k a)) : (ern π f x >>= k') = ern π g (x >>= k) := by
  cases x with
  | error e => rfl
  | ok a => exact h a

theorem ern_id_of_ok {α : Type} (π : String → String) (x : E α) (h : ∀ n, x ≠ .error (.undeclaredWireRead n)) :
    ern π id x = x := by
  cases x with
  | ok a => rfl
  | error e =>
    cases e with
    | undeclaredWireRead n => exact absurd rfl (h n)
    | _ => rfl

theorem applyBin_ern (π : String → String) (fl : Flags) (op : BinOp) (a b : WireValue) :
    ern π id (applyBin fl op a b) = applyBin fl op a b := by
  apply ern_id_of_ok
  intro n h
  unfold applyBin at h
  split at h
  · cases h
  · cases h1 : binWidthE fl op a.width b.width with
    | error e =>
      have : e = .runtimeMismatchedWidths := by
        unfold binWidthE at h1
        repeat' split at h1
        all_goals first | (cases h1; done) | (cases h1; rfl)
      subst this
      rw [h1] at h; cases h
    | ok w =>
      rw [h1] at h
      cases h2 : applyRaw op a.bits b.bits with
      | error e =>
        have : ∃ f, e = .fail f := by
          unfold applyRaw at h2
          repeat' split at h2
          all_goals first | (cases h2; done) | (cases h2; exact ⟨_, rfl⟩)
        obtain ⟨f, rfl⟩ := this
        rw [h2] at h; cases h
      | ok raw =>
        rw [h2] at h
        simp only [bind, Except.bind] at h
        cases h3 : w.mask <;> simp [h3, liftR, pure, Except.pure] at h

theorem applyUn_ern (π : String → String) (op : UnOp) (a : WireValue) : ern π id (applyUn op a) = applyUn op a := by
  apply ern_id_of_ok
  intro n h
  unfold applyUn at h
  simp only [bind, Except.bind] at h
  split at h
  · rename_i h3
    cases h4 : Width.mask (if op = UnOp.not then Width.bits 1 else a.width) <;> simp [h4, liftR] at h3
    subst h3; cases h
  · simp [pure, Except.pure] at h

theorem asWidth_ern (π : String → String) (v : WireValue) (w : Width) : ern π id (asWidth v w) = asWidth v w := by
  apply ern_id_of_ok
  intro n h
  unfold asWidth at h
  simp only [bind, Except.bind] at h
  cases h3 : w.mask <;> simp [h3, liftR, pure, Except.pure] at h

theorem liftR_ern {α : Type} (π : String → String) (x : R α) : ern π id (liftR x) = liftR x := by
  cases x <;> rfl

theorem ern_bind_liftR {α β β' : Type} (π : String → String) (g : β → β') (x : R α) (k : α → E β) (k' : α → E β')
    (h : ∀ a, k' a = ern π g (k a)) : (liftR x >>= k') = ern π g (liftR x >>= k) := by
  cases x with
  | error e => rfl
  | ok a => exact h a

mutual
theorem ev_rename (π : String → String) (fl : Flags) (κ κ' : Env) (hκ : ∀ n, κ' (π n) = κ n) :
    ∀ (e : Ex), ev fl κ' (e.rename π) = ern π id (ev fl κ e)
  | .const _ => by simp [Ex.rename, ev, ern, pure, Except.pure]
  | .bin op l r => by
      simp only [Ex.rename, ev, ev_rename π fl κ κ' hκ l, ev_rename π fl κ κ' hκ r]
      apply ern_bind π id id; intro a
      apply ern_bind π id id; intro b
      exact (applyBin_ern π fl op a b).symm
  | .un op e => by
      simp only [Ex.rename, ev, ev_rename π fl κ κ' hκ e]
      apply ern_bind π id id; intro a
      exact (applyUn_ern π op a).symm
  | .wire n => by
      simp only [Ex.rename, ev, hκ]
      cases κ n <;> rfl
  | .slice e lo hi => by
      simp only [Ex.rename, ev, ev_rename π fl κ κ' hκ e]
      apply ern_bind π id id; intro a
      apply ern_bind_liftR π id; intro w
      apply ern_bind_liftR π id; intro m
      rfl
  | .concat l r => by
      simp only [Ex.rename, ev, ev_rename π fl κ κ' hκ l, ev_rename π fl κ κ' hκ r]
      apply ern_bind π id id; intro a
      apply ern_bind π id id; intro b
      simp only [id]
      cases b.width with
      | unlimited => rfl
      | bits rb =>
        cases a.width with
        | unlimited => rfl
        | bits lb =>
          simp only []
          apply ern_bind_liftR π id; intro w
          apply ern_bind_liftR π id; intro m
          rfl
  | .mux o => by
      simp only [Ex.rename, ev, evMux_rename π fl κ κ' hκ o]
  | .inSet e items => by
      simp only [Ex.rename, ev, ev_rename π fl κ κ' hκ e]
      apply ern_bind π id id; intro a
      exact evIn_rename π fl κ κ' hκ a.bits items
theorem evMux_rename (π : String → String) (fl : Flags) (κ κ' : Env) (hκ : ∀ n, κ' (π n) = κ n) :
    ∀ (o : Opts), evMux fl κ' (o.rename π) = ern π id (evMux fl κ o)
  | .nil => by simp [Opts.rename, evMux, ern, pure, Except.pure]
  | .cons c v rest => by
      simp only [Opts.rename, evMux, ev_rename π fl κ κ' hκ c, ev_rename π fl κ κ' hκ v, evMux_rename π fl κ κ' hκ rest]
      apply ern_bind π id id; intro cv
      simp only [id]
      split <;> rfl
theorem evIn_rename (π : String → String) (fl : Flags) (κ κ' : Env) (hκ : ∀ n, κ' (π n) = κ n) (x : Nat) :
    ∀ (o : Exs), evIn fl κ' x (o.rename π) = ern π id (evIn fl κ x o)
  | .nil => by simp [Exs.rename, evIn, ern, pure, Except.pure]
  | .cons e rest => by
      simp only [Exs.rename, evIn, ev_rename π fl κ κ' hκ e, evIn_rename π fl κ κ' hκ x rest]
      apply ern_bind π id id; intro b
      simp only [id]
      split <;> rfl
end

theorem alwaysTrue_rename (π : String → String) (fl : Flags) (κ κ' : Env) (hκ : ∀ n, κ' (π n) = κ n) (e : Ex) :
    alwaysTrue fl κ' (e.rename π) = alwaysTrue fl κ e := by
  unfold alwaysTrue
  rw [ev_rename π fl κ κ' hκ]
  cases ev fl κ e <;> rfl

/-! ### the width checker -/

theorem crn_bind {α β α' β' : Type} (π : String → String) (f : α → α') (g : β → β') (x : C α) (k : α → C β) (k' : α' → C β')
    (h : ∀ a, k' (f a) = crn π g (k a)) : (crn π f x >>= k') = crn π g (x >>= k) := by
  cases x with
  | error e => rfl
  | ok a => exact h a

mutual
theorem check_rename (π : String → String) (fl : Flags) (Γ Γ' : Ctx) (κ κ' : Env) (hΓ : ∀ n, Γ' (π n) = Γ n)
    (hκ : ∀ n, κ' (π n) = κ n) : ∀ (e : Ex), check fl Γ' κ' (e.rename π) = crn π id (check fl Γ κ e)
  | .const _ => by simp [Ex.rename, check, crn, pure, Except.pure]
  | .bin op l r => by
      simp only [Ex.rename, check, check_rename π fl Γ Γ' κ κ' hΓ hκ l, check_rename π fl Γ Γ' κ κ' hΓ hκ r]
      cases op.kind with
      | equalWidth =>
        simp only []
        apply crn_bind π id id; intro a
        apply crn_bind π id id; intro b
        simp only [id]
        cases a.combine b <;> rfl
      | equalWidthWeak =>
        simp only []
        split
        · apply crn_bind π id id; intro a
          apply crn_bind π id id; intro b
          simp only [id]
          cases a.combine b <;> rfl
        · apply crn_bind π id id; intro a
          apply crn_bind π id id; intro b
          rfl
      | boolCombine =>
        simp only []
        split
        · apply crn_bind π id id; intro a
          simp only [id]
          by_cases ha : (!a.possiblyBoolean) = true
          · simp only [ha, if_true]; rfl
          · simp only [ha]
            apply crn_bind π id id; intro b
            simp only [id]
            by_cases hb : (!b.possiblyBoolean) = true
            · simp only [hb, if_true]; rfl
            · simp only [hb]; rfl
        · apply crn_bind π id id; intro a
          apply crn_bind π id id; intro b
          rfl
      | boolFromEq =>
        simp only []
        apply crn_bind π id id; intro a
        apply crn_bind π id id; intro b
        simp only [id]
        cases a.combine b <;> rfl
  | .mux opts => by
      simp only [Ex.rename, check, checkOpts_rename π fl Γ Γ' κ κ' hΓ hκ opts]
      apply crn_bind π id id; intro s
      simp only [id]
      by_cases h1 : (fl.requireMuxDefault && !s.seenTrue) = true
      · simp only [h1, if_true]; rfl
      · simp only [h1]
        by_cases h2 : (fl.disallowMultipleMuxDefault && s.seenTwice) = true
        · simp only [h2, if_true]; rfl
        · simp only [h2]
          by_cases h3 : (fl.disallowUnreachable && s.seenUnreachable) = true
          · simp only [h3, if_true]; rfl
          · simp only [h3]
            cases s.width <;> rfl
  | .un .not e => by
      simp only [Ex.rename, check, check_rename π fl Γ Γ' κ κ' hΓ hκ e]
      apply crn_bind π id id; intro a
      rfl
  | .un .neg e => by simp only [Ex.rename, check, check_rename π fl Γ Γ' κ κ' hΓ hκ e]
  | .un .compl e => by simp only [Ex.rename, check, check_rename π fl Γ Γ' κ κ' hΓ hκ e]
  | .un .plus e => by simp only [Ex.rename, check, check_rename π fl Γ Γ' κ κ' hΓ hκ e]
  | .wire n => by
      simp only [Ex.rename, check, hΓ]
      cases Γ n <;> rfl
  | .slice e lo hi => by
      simp only [Ex.rename, check, check_rename π fl Γ Γ' κ κ' hΓ hκ e]
      split
      · rfl
      · apply crn_bind π id id; intro a
        simp only [id]
        cases a with
        | unlimited => rfl
        | bits n => simp only []; split <;> rfl
  | .concat l r => by
      simp only [Ex.rename, check, check_rename π fl Γ Γ' κ κ' hΓ hκ l, check_rename π fl Γ Γ' κ κ' hΓ hκ r]
      apply crn_bind π id id; intro a
      simp only [id]
      cases a with
      | unlimited => rfl
      | bits lw =>
        simp only []
        apply crn_bind π id id; intro b
        simp only [id]
        cases b with
        | unlimited => rfl
        | bits rw => simp only []; split <;> rfl
  | .inSet e items => by
      simp only [Ex.rename, check, check_rename π fl Γ Γ' κ κ' hΓ hκ e]
      apply crn_bind π id id; intro a
      simp only [id]
      rw [checkItems_rename π fl Γ Γ' κ κ' hΓ hκ a items]
      apply crn_bind π (List.map (Diag.rename π)) id; intro errs
      rw [List.isEmpty_map]
      split <;> rfl
theorem checkOpts_rename (π : String → String) (fl : Flags) (Γ Γ' : Ctx) (κ κ' : Env) (hΓ : ∀ n, Γ' (π n) = Γ n)
    (hκ : ∀ n, κ' (π n) = κ n) : ∀ (o : Opts) (s : MuxScan), checkOpts fl Γ' κ' (o.rename π) s = crn π id (checkOpts fl Γ κ o s)
  | .nil, s => by simp [Opts.rename, checkOpts, crn, pure, Except.pure]
  | .cons c v rest, s => by
      simp only [Opts.rename, checkOpts, check_rename π fl Γ Γ' κ κ' hΓ hκ c, check_rename π fl Γ Γ' κ κ' hΓ hκ v,
        alwaysTrue_rename π fl κ κ' hκ c]
      apply crn_bind π id id; intro a
      apply crn_bind π id id; intro w
      exact checkOpts_rename π fl Γ Γ' κ κ' hΓ hκ rest _
theorem checkItems_rename (π : String → String) (fl : Flags) (Γ Γ' : Ctx) (κ κ' : Env) (hΓ : ∀ n, Γ' (π n) = Γ n)
    (hκ : ∀ n, κ' (π n) = κ n) (a : Width) :
    ∀ (o : Exs), checkItems fl Γ' κ' a (o.rename π) = crn π (List.map (Diag.rename π)) (checkItems fl Γ κ a o)
  | .nil => by simp [Exs.rename, checkItems, crn, pure, Except.pure]
  | .cons e rest => by
      simp only [Exs.rename, checkItems, check_rename π fl Γ Γ' κ κ' hΓ hκ e, checkItems_rename π fl Γ Γ' κ κ' hΓ hκ a rest]
      apply crn_bind π id (List.map (Diag.rename π)); intro b
      apply crn_bind π (List.map (Diag.rename π)) (List.map (Diag.rename π)); intro more
      simp only [id]
      cases a.combine b <;> rfl
end

mutual
theorem fixMux_rename (π : String → String) (fl : Flags) (Γ Γ' : Ctx) (κ κ' : Env) (hΓ : ∀ n, Γ' (π n) = Γ n)
    (hκ : ∀ n, κ' (π n) = κ n) : ∀ (e : Ex), fixMux fl Γ' κ' (e.rename π) = (fixMux fl Γ κ e).rename π
  | .const _ => by simp [Ex.rename, fixMux]
  | .bin op l r => by
      simp only [Ex.rename, fixMux, fixMux_rename π fl Γ Γ' κ κ' hΓ hκ l, fixMux_rename π fl Γ Γ' κ κ' hΓ hκ r]
  | .un op e => by simp only [Ex.rename, fixMux, fixMux_rename π fl Γ Γ' κ κ' hΓ hκ e]
  | .wire n => by simp [Ex.rename, fixMux]
  | .slice e lo hi => by simp only [Ex.rename, fixMux, fixMux_rename π fl Γ Γ' κ κ' hΓ hκ e]
  | .concat l r => by
      simp only [Ex.rename, fixMux, fixMux_rename π fl Γ Γ' κ κ' hΓ hκ l, fixMux_rename π fl Γ Γ' κ κ' hΓ hκ r]
  | .inSet e items => by
      simp only [Ex.rename, fixMux, fixMux_rename π fl Γ Γ' κ κ' hΓ hκ e, fixMuxExs_rename π fl Γ Γ' κ κ' hΓ hκ items]
  | .mux opts => by
      have hc := check_rename π fl Γ Γ' κ κ' hΓ hκ (.mux opts)
      simp only [Ex.rename] at hc
      simp only [Ex.rename, fixMux, fixMuxOpts_rename π fl Γ Γ' κ κ' hΓ hκ opts, hc]
      cases check fl Γ κ (.mux opts) with
      | error ds => rfl
      | ok w => cases w <;> rfl
theorem fixMuxOpts_rename (π : String → String) (fl : Flags) (Γ Γ' : Ctx) (κ κ' : Env) (hΓ : ∀ n, Γ' (π n) = Γ n)
    (hκ : ∀ n, κ' (π n) = κ n) : ∀ (o : Opts), fixMuxOpts fl Γ' κ' (o.rename π) = (fixMuxOpts fl Γ κ o).rename π
  | .nil => by simp [Opts.rename, fixMuxOpts]
  | .cons c v rest => by
      simp only [Opts.rename, fixMuxOpts, fixMux_rename π fl Γ Γ' κ κ' hΓ hκ c, fixMux_rename π fl Γ Γ' κ κ' hΓ hκ v,
        fixMuxOpts_rename π fl Γ Γ' κ κ' hΓ hκ rest]
theorem fixMuxExs_rename (π : String → String) (fl : Flags) (Γ Γ' : Ctx) (κ κ' : Env) (hΓ : ∀ n, Γ' (π n) = Γ n)
    (hκ : ∀ n, κ' (π n) = κ n) : ∀ (o : Exs), fixMuxExs fl Γ' κ' (o.rename π) = (fixMuxExs fl Γ κ o).rename π
  | .nil => by simp [Exs.rename, fixMuxExs]
  | .cons e rest => by
      simp only [Exs.rename, fixMuxExs, fixMux_rename π fl Γ Γ' κ κ' hΓ hκ e, fixMuxExs_rename π fl Γ Γ' κ κ' hΓ hκ rest]
end

theorem checkFixEval_rename (π : String → String) (fl : Flags) (Γ Γ' : Ctx) (κ κ' : Env) (hΓ : ∀ n, Γ' (π n) = Γ n)
    (hκ : ∀ n, κ' (π n) = κ n) (e : Ex) : checkFixEval fl Γ' κ' (e.rename π) = crn π id (checkFixEval fl Γ κ e) := by
  unfold checkFixEval
  rw [check_rename π fl Γ Γ' κ κ' hΓ hκ e, fixMux_rename π fl Γ Γ' κ κ' hΓ hκ e, ev_rename π fl κ κ' hκ]
  cases check fl Γ κ e with
  | error ds => rfl
  | ok w =>
    simp only [crn]
    cases ev fl κ (fixMux fl Γ κ e) with
    | ok v => rfl
    | error err => simp only [ern, List.map_cons, List.map_nil, Err.toDiag_rename]

mutual
theorem wfEx_rename (π : String → String) : ∀ (e : Ex), wfEx (e.rename π) = wfEx e
  | .const _ => by simp [Ex.rename]
  | .bin _ l r => by simp [Ex.rename, wfEx, wfEx_rename π l, wfEx_rename π r]
  | .un _ e => by simp [Ex.rename, wfEx, wfEx_rename π e]
  | .wire n => by simp [Ex.rename, wfEx]
  | .slice e _ _ => by simp [Ex.rename, wfEx, wfEx_rename π e]
  | .concat l r => by simp [Ex.rename, wfEx, wfEx_rename π l, wfEx_rename π r]
  | .mux o => by simp [Ex.rename, wfEx, wfOpts_rename π o]
  | .inSet e items => by simp [Ex.rename, wfEx, wfEx_rename π e, wfExs_rename π items]
theorem wfOpts_rename (π : String → String) : ∀ (o : Opts), wfOpts (o.rename π) = wfOpts o
  | .nil => by simp [Opts.rename]
  | .cons c v rest => by simp [Opts.rename, wfOpts, wfEx_rename π c, wfEx_rename π v, wfOpts_rename π rest]
theorem wfExs_rename (π : String → String) : ∀ (o : Exs), wfExs (o.rename π) = wfExs o
  | .nil => by simp [Exs.rename]
  | .cons e rest => by simp [Exs.rename, wfExs, wfEx_rename π e, wfExs_rename π rest]
end
