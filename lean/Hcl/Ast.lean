import Hcl.Rust
open Rust

/-! Abstract syntax (ast.rs), without source spans. -/

inductive Width where
  | bits (n : Nat)
  | unlimited
  deriving Repr, DecidableEq, Inhabited

structure WireValue where
  bits : Nat
  width : Width
  deriving Repr, DecidableEq, Inhabited

namespace Width
/-- `WireWidth::combine` -/
def combine : Width → Width → Option Width
  | .unlimited, o => some o
  | s, .unlimited => some s
  | .bits s, .bits t => if s = t then some (.bits s) else none
/-- `WireWidth::max` -/
def max : Width → Width → Width
  | .unlimited, o => o
  | s, .unlimited => s
  | .bits s, .bits t => if s > t then .bits s else .bits t
/-- `WireWidth::mask` (panics in debug builds when `s > 128`) -/
def mask : Width → R Nat
  | .unlimited => pure (U128 - 1)
  | .bits s => maskBits s
/-- number of values: 2^w, or 2^128 when unsized -/
def card : Width → Nat
  | .unlimited => U128
  | .bits n => 2 ^ n
def ok : Width → Prop
  | .unlimited => True
  | .bits n => n ≤ 128
def possiblyBoolean : Width → Bool
  | .unlimited => true
  | .bits n => n == 1
def bitsOr128 : Width → Nat
  | .unlimited => 128
  | .bits n => n
end Width

inductive BinOp where
  | add | sub | mul | div | or | xor | and | eq | ne | le | ge | lt | gt | land | lor | shl | shr
  deriving Repr, DecidableEq, Inhabited

inductive UnOp where | plus | neg | compl | not
  deriving Repr, DecidableEq, Inhabited

mutual
inductive Ex where
  | const (v : WireValue)
  | bin (op : BinOp) (l r : Ex)
  | un (op : UnOp) (e : Ex)
  | wire (name : String)
  | slice (e : Ex) (lo hi : Nat)
  | concat (l r : Ex)
  | mux (opts : Opts)
  | inSet (e : Ex) (items : Exs)
inductive Opts where
  | nil
  | cons (cond val : Ex) (rest : Opts)
inductive Exs where
  | nil
  | cons (e : Ex) (rest : Exs)
end

instance : Inhabited Ex := ⟨.const ⟨0, .unlimited⟩⟩

def Opts.toList : Opts → List (Ex × Ex)
  | .nil => []
  | .cons c v r => (c, v) :: r.toList
def Opts.ofList : List (Ex × Ex) → Opts
  | [] => .nil
  | (c, v) :: r => .cons c v (Opts.ofList r)
def Exs.toList : Exs → List Ex
  | .nil => []
  | .cons e r => e :: r.toList
def Exs.ofList : List Ex → Exs
  | [] => .nil
  | e :: r => .cons e (Exs.ofList r)

mutual
/-- `referenced_wires` as a list with repetitions (the code collects a `HashSet`) -/
def refs : Ex → List String
  | .const _ => []
  | .bin _ l r => refs l ++ refs r
  | .un _ e => refs e
  | .wire n => [n]
  | .slice e _ _ => refs e
  | .concat l r => refs l ++ refs r
  | .mux opts => refsOpts opts
  | .inSet e items => refs e ++ refsExs items
def refsOpts : Opts → List String
  | .nil => []
  | .cons c v rest => refs c ++ refs v ++ refsOpts rest
def refsExs : Exs → List String
  | .nil => []
  | .cons e rest => refs e ++ refsExs rest
end

/-- run-time and check-time failures that the code reports as `Error` values, plus `fail` for a Rust panic -/
inductive Err where
  | fail (f : Fail)
  | runtimeMismatchedWidths
  | noBitWidth
  | undeclaredWireRead (n : String)
  | divideByZero
  deriving Repr, DecidableEq

abbrev E (α : Type) := Except Err α
def liftR {α} : R α → E α
  | .ok a => .ok a
  | .error f => .error (.fail f)

/-- the five strictness switches of ast.rs (`cfg!(feature = ...)`) -/
structure Flags where
  strictBinary : Bool := false
  strictBoolean : Bool := true
  requireMuxDefault : Bool := true
  disallowMultipleMuxDefault : Bool := true
  disallowUnreachable : Bool := true
  deriving Repr, DecidableEq, Inhabited

/-! ### Statements -/

structure ConstDecl where
  name : String
  value : Ex
structure WireDecl where
  name : String
  width : Width
structure Assignment where
  names : List String
  value : Ex
structure RegDecl where
  name : String
  width : Width
  default : Ex
structure BankDecl where
  name : String
  regs : List RegDecl

inductive Stmt where
  | consts (ds : List ConstDecl)
  | wires (ds : List WireDecl)
  | assigns (as : List Assignment)
  | bank (b : BankDecl)
