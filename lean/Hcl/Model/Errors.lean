import Hcl.Model.Io
import Hcl.Util.Format
open Rust

/-! Model of the rendering of diagnostics: `Error::format_for_contents` (errors.rs) with its helpers `error`,
    `error_continue`, `s_are`, `format_token_list` and `list_with_and`.

    An error value is an `ErrV`: one constructor per variant of the Rust `Error`, carrying exactly the fields the
    renderer looks at (of an expression only its span; of an `io::Error` / `fmt::Error` the text its `Display` gives).
    Strings are lists of UTF-8 bytes, like everywhere in `Hcl/Model/Io.lean`.  The result is the list of bytes written
    to the output; every slice and index that can panic in Rust is a `Fail.panic` (what had been written before the
    panic is not modelled).  The located regions are `Io.showRegion`. -/

namespace Errors

abbrev Span := Nat × Nat

inductive ErrV where
  | mismatchedMuxWidths (options : List Span) (widths : List Width)
  | mismatchedExprWidths (first : Span) (firstWidth : Width) (second : Span) (secondWidth : Width)
  | mismatchedWireWidths (name : Bytes) (firstWidth : Width) (second : Span) (secondWidth : Width)
  | mismatchedRegisterDefaultWidths (bank registerName : Bytes) (registerWidth : Width) (defaultExpression : Span) (expressionWidth : Width)
  | duplicateRegister (bank registerName : Bytes)
  | runtimeMismatchedWidths
  | divideByZero
  | undeclaredWireAssigned (name : Bytes) (span : Span) (closeName : Option Bytes)
  | undeclaredWireRead (name : Bytes) (expr : Span) (closeName : Option Bytes)
  | nonConstantWireRead (name : Bytes) (expr : Span)
  | unsetWire (name : Bytes) (span : Span)
  | unsetBuiltinWire (name : Bytes)
  | unsetUndeclaredWire (name : Bytes)
  | unsetRegisterInputWire (name : Bytes) (registerSpan : Span)
  | redeclaredWire (name : Bytes) (newSpan oldSpan : Span)
  | doubleAssignedWire (name : Bytes) (newSpan oldSpan : Span)
  | doubleAssignedRegisterWire (name : Bytes) (registerSpan assignSpan : Span)
  | doubleDeclaredRegisterOutWire (name : Bytes) (oldSpan newSpan : Span)
  | doubleAssignedFixedOutWire (name : Bytes) (span : Span) (fixedName : Bytes)
  | assignedConstant (name : Bytes) (span constSpan : Span)
  | redeclaredBuiltinWire (name : Bytes) (span : Span) (fixedName : Bytes)
  | partialFixedInput (name : Bytes) (foundInputs missingInputs : List Bytes)
  | wireLoop (names : List Bytes)
  | invalidWireWidth (span : Span)
  | invalidRegisterBankName (name : Bytes) (span : Span)
  | invalidBitIndex (expr : Span) (index : Nat)
  | nonBooleanWidth (expr : Span)
  | noBitWidth (expr : Span)
  | misorderedBitIndexes (expr : Span)
  | invalidConstant (span : Span)
  | wireTooWide (expr : Span)
  | expectedStatementFoundExpr (expr : Span)
  | unterminatedComment (loc : Nat)
  | lexicalError (loc : Nat)
  | internalParserErrorNear (span : Span) (info : Bytes)
  | missingWireWidth (span : Span)
  | wireAssignedInDeclaration (span : Span)
  | missingRegisterWidth (span : Span)
  | addedConstWidth (span : Span)
  | missingAssignmentMux (span : Span)
  | registerDeclaredWithWire (span : Span)
  | noMuxDefaultOption (expr : Span)
  | multipleMuxDefaultOption (expr : Span)
  | unreachableOptions (expr : Span)
  | emptyFile
  | unparseableLine (line : Bytes)
  | invalidToken (loc : Nat)
  | unrecognizedToken (location : Span) (expected : List Bytes)
  | extraToken (span : Span)
  | multiple (errors : List ErrV)
  | ioError (display : Bytes)
  | fmtError (display : Bytes)
  deriving Inhabited

open Yo (str)

/-- `"       {}\n"` for every line of the message -/
def contLines : List Bytes → Bytes
  | [] => []
  | l :: rest => str "       " ++ l ++ [10] ++ contLines rest

/-- `error(output, message)`: the first line of the message after `error: `, the others indented -/
def error (message : Bytes) : Bytes :=
  match Io.lines message with
  | [] => []
  | first :: rest => str "error: " ++ first ++ [10] ++ contLines rest

/-- `error_continue(output, message)` -/
def errorContinue (message : Bytes) : Bytes := contLines (Io.lines message)

def sAre (i : Nat) : Bytes := if i ≠ 1 then str "s are" else str " is"

/-- `{}` of a number -/
def dec (n : Nat) : Bytes := Io.decBytes n

/-- `WireWidth::bits_or_128` -/
def bitsOr128 : Width → Nat
  | .bits n => n
  | .unlimited => 128

def quoted (op : String) : Bytes := [34] ++ str op ++ [34]

def allCompareOperators : List Bytes := ["!=", "<", "<=", "==", ">", ">=", ">>"].map quoted
def allBinOperators : List Bytes := ["&", "&&", "*", "+", "-", "/", "<<", "^", "|", "||", "in"].map quoted
def allUnOperators : List Bytes := ["!", "-", "~"].map quoted

/-- the order of `String`s (`found_list.sort()`): byte by byte, a proper prefix first -/
def bytesLe : Bytes → Bytes → Bool
  | [], _ => true
  | _ :: _, [] => false
  | a :: as, b :: bs => if a < b then true else if b < a then false else bytesLe as bs

def insertSorted (x : Bytes) : List Bytes → List Bytes
  | [] => [x]
  | y :: ys => if bytesLe x y then x :: y :: ys else y :: insertSorted x ys

def sortBytes (l : List Bytes) : List Bytes := l.foldr insertSorted []

/-- the members of the `HashSet` (each token once) -/
def dedup : List Bytes → List Bytes
  | [] => []
  | x :: xs => if xs.contains x then dedup xs else x :: dedup xs

/-- how one member of the token set is named in the message -/
def describeToken (token : Bytes) : R Bytes :=
  if token = str "ID" then pure (str "an identifier (wire name)")
  else if token = str "CONSTANT" then pure (str "an integer constant")
  else do
    let first ← Yo.index token 0 1
    if first = [34] then
      let last ← uSub token.length 1
      let inner ← Yo.index token 1 last
      pure ([39] ++ inner ++ [39])
    else pure token

/-- the three ways the sorted list is joined -/
def joinOr : List Bytes → Bytes
  | [] => []
  | [a] => a
  | [a, b] => a ++ str " or " ++ b
  | l => (l.dropLast.flatMap fun item => item ++ str ", ") ++ str "or " ++ l.getLastD []

def mapR {α β : Type} (f : α → R β) : List α → R (List β)
  | [] => pure []
  | x :: xs => do
    let y ← f x
    let ys ← mapR f xs
    pure (y :: ys)

/-- `format_token_list` -/
def formatTokenList (tokens : List Bytes) : R Bytes := do
  let set0 := dedup tokens
  let numCompare := (allCompareOperators.filter set0.contains).length
  let numBin := (allBinOperators.filter set0.contains).length
  let numUn := (allUnOperators.filter set0.contains).length
  let allCmp := numCompare == allCompareOperators.length
  let allBin := numBin == allBinOperators.length
  let allUn := numUn == allUnOperators.length
  let set1 := if allCmp then set0.filter (fun t => !allCompareOperators.contains t) else set0
  let set2 := if allBin then set1.filter (fun t => !allBinOperators.contains t) else set1
  let set3 := if allUn then set2.filter (fun t => !allUnOperators.contains t) else set2
  let classes : List Bytes := (if allCmp then [str "a comparison operator"] else []) ++
    (if allBin then [str "a binary operator"] else []) ++ (if allUn then [str "a unary operator"] else [])
  let named ← mapR describeToken set3
  pure (joinOr (sortBytes (classes ++ named)))

def joinWith (sep : Bytes) : List Bytes → Bytes
  | [] => []
  | [a] => a
  | a :: rest => a ++ sep ++ joinWith sep rest

/-- `list_with_and` (for three items or more the opening quote is overwritten by the assignment of the joined list,
    and the closing quotes are not written: the code is transcribed as it is) -/
def listWithAnd (items : List Bytes) : Bytes :=
  if items.length > 2 then joinWith (str "', '") items.dropLast ++ str ", and " ++ items.getLastD []
  else match items with
    | [a, b] => [39] ++ a ++ str "' and '" ++ b ++ [39]
    | [a] => [39] ++ a ++ [39]
    | _ => []

/-- the non-continuation bytes of a string: one per character -/
def charStarts (s : Bytes) : Bytes := s.filter fun b => !Yo.cont b

/-- `name.chars().count() > 2 && name.chars().nth(1) == Some('_')` -/
def looksLikeRegisterSignal (name : Bytes) : Bool :=
  (charStarts name).length > 2 && (charStarts name)[1]? == some 95

/-- the hint under an undeclared wire -/
def undeclaredHint (name : Bytes) : Option Bytes → Bytes
  | some other => errorContinue (str "(Did you mean '" ++ other ++ str "'?)")
  | none =>
    if looksLikeRegisterSignal name then errorContinue (str "(Missing register declaration?)")
    else errorContinue (str "(Did you mean to declare it with 'wire " ++ name ++ str "' or 'const " ++ name ++ str "'?)")

/-- is every character of the (valid UTF-8) string white space (`char::is_whitespace`, Unicode `White_Space`)? -/
def allWhitespace : Bytes → Bool
  | [] => true
  | 0xC2 :: 0x85 :: rest => allWhitespace rest
  | 0xC2 :: 0xA0 :: rest => allWhitespace rest
  | 0xE1 :: 0x9A :: 0x80 :: rest => allWhitespace rest
  | 0xE2 :: 0x80 :: b :: rest => ((0x80 ≤ b && b ≤ 0x8A) || b == 0xA8 || b == 0xA9 || b == 0xAF) && allWhitespace rest
  | 0xE2 :: 0x81 :: 0x9F :: rest => allWhitespace rest
  | 0xE3 :: 0x80 :: 0x80 :: rest => allWhitespace rest
  | b :: rest => ((9 ≤ b && b ≤ 13) || b == 32) && allWhitespace rest

/-- the first loop of the `MismatchedMuxWidths` arm: the options whose width is known, with `widths[i]` checked -/
def muxPairs : List Span → List Width → R (List (Nat × Span))
  | [], _ => pure []
  | _ :: _, [] => throw (.panic "index out of bounds")
  | o :: os, w :: ws => do
    let rest ← muxPairs os ws
    match w with
    | .unlimited => pure rest
    | .bits n => pure ((n, o) :: rest)

/-- `by_width.entry(width).or_insert(Vec::new()).push(option)` on a map kept in the order of its keys -/
def groupInsert (n : Nat) (o : Span) : List (Nat × List Span) → List (Nat × List Span)
  | [] => [(n, [o])]
  | (m, l) :: rest =>
    if n < m then (n, [o]) :: (m, l) :: rest
    else if n = m then (m, l ++ [o]) :: rest
    else (m, l) :: groupInsert n o rest

def groupByWidth (pairs : List (Nat × Span)) : List (Nat × List Span) :=
  pairs.foldl (fun acc p => groupInsert p.1 p.2 acc) []

/-- one write of an arm of `format_for_contents`: a message (`error(..)`, `error_continue(..)`) or the region of a span
    (`write!(output, "{}", contents.show_region(span.0, span.1))`) -/
inductive Piece where
  | text (b : Bytes)
  | region (s : Span)

/-- the writes of the second loop of the `MismatchedMuxWidths` arm: for every width its headline, then its options -/
def muxGroups : List (Nat × List Span) → List Piece
  | [] => []
  | (width, lst) :: rest =>
    .text (errorContinue (dec lst.length ++ str " option" ++ sAre lst.length ++ str " " ++ dec width ++ str " bits wide:\n")) ::
      (lst.map .region ++ muxGroups rest)

/-- `"  '{}' depends on '{}'{}"` for every `i` -/
def loopLines (lst : List Bytes) : Nat → Nat → Bytes
  | 0, _ => []
  | k+1, i =>
    errorContinue (str "  '" ++ lst.getD ((i + 1) % lst.length) [] ++ str "' depends on '" ++ lst.getD i [] ++ str "'" ++
      (if i = lst.length - 1 then [] else str " and")) ++ loopLines lst k (i + 1)

/-- a message followed by the region of one span -/
def located (message : Bytes) (span : Span) : List Piece := [.text (error message), .region span]

/-- a message, a region, a second message, a second region -/
def located2 (m1 : Bytes) (s1 : Span) (m2 : Bytes) (s2 : Span) : List Piece :=
  [.text (error m1), .region s1, .text (errorContinue m2), .region s2]

/-- every arm of `format_for_contents` but `MultipleErrors`: what it writes, in order; the slices and indexes it takes
    before writing the regions can fail -/
def layout (fc : Io.FileContents) : ErrV → R (List Piece)
  | .multiple _ => pure []
  | .mismatchedMuxWidths options widths => do
    let pairs ← muxPairs options widths
    pure (.text (error (str "Mismatched wire widths for mux options.")) :: muxGroups (groupByWidth pairs))
  | .mismatchedExprWidths first fw second sw =>
    pure (located2 (str "Mismatched wire widths.\nOne side is " ++ dec (bitsOr128 fw) ++ str " bits wide:\n") first
      (str "The other side is " ++ dec (bitsOr128 sw) ++ str " bits wide:\n") second)
  | .mismatchedWireWidths name fw second sw =>
    pure (located (str "Mismatched wire widths.\nThe wire '" ++ name ++ str "' is declared as " ++ dec (bitsOr128 fw) ++
      str " bits wide.\nBut a " ++ dec (bitsOr128 sw) ++ str " bit wide value is assigned to it:\n") second)
  | .mismatchedRegisterDefaultWidths bank reg rw dflt ew =>
    pure (located (str "Register '" ++ reg ++ str "' in bank '" ++ bank ++ str "' is " ++ dec (bitsOr128 rw) ++
      str " bits wide, but default value is " ++ dec (bitsOr128 ew) ++ str " bits wide:\n") dflt)
  | .duplicateRegister bank reg =>
    pure [.text (error (str "Register '" ++ reg ++ str "' in bank '" ++ bank ++ str "' defined twice."))]
  | .runtimeMismatchedWidths => pure [.text (error (str "Unexpected wire width disagreement."))]
  | .divideByZero => pure [.text (error (str "Division by zero."))]
  | .undeclaredWireAssigned name span close =>
    pure [.text (error (str "Undeclared wire '" ++ name ++ str "' assigned value:")), .region span, .text (undeclaredHint name close)]
  | .undeclaredWireRead name expr close =>
    pure [.text (error (str "Usage of undeclared wire '" ++ name ++ str "' in expression:")), .region expr, .text (undeclaredHint name close)]
  | .nonConstantWireRead name expr =>
    pure (located (str "Usage of non-constant wire '" ++ name ++ str "' in initial or constant value:") expr)
  | .unsetWire name span => pure (located (str "Wire '" ++ name ++ str "' never assigned but defined here:") span)
  | .unsetBuiltinWire name => pure [.text (error (str "Wire '" ++ name ++ str "' required by fixed functionality but never assigned."))]
  | .unsetUndeclaredWire name => pure [.text (error (str "Wire '" ++ name ++ str "' was read but never declared."))]
  | .unsetRegisterInputWire name span =>
    pure (located (str "Wire '" ++ name ++ str "' never assigned, but is input to the register defined here:") span)
  | .redeclaredWire name new old =>
    pure (located2 (str "Wire '" ++ name ++ str "' redeclared. Declared here:") new (str "After being declared here here:") old)
  | .doubleAssignedWire name new old =>
    pure (located2 (str "Wire '" ++ name ++ str "' assigned twice. Assigned here:") new (str "After being assigned here:") old)
  | .doubleAssignedFixedOutWire name span fixed =>
    pure (located (str "Wire '" ++ name ++ str "' is output for the " ++ fixed ++ str " but is assigned here:") span)
  | .assignedConstant name span constSpan =>
    pure (located2 (str "Constant '" ++ name ++ str "' is assigned a value here:") span (str "but it is defined as a constant here:") constSpan)
  | .doubleAssignedRegisterWire name registerSpan assignSpan =>
    pure (located2 (str "Wire '" ++ name ++ str "' is output of a register declared here:") registerSpan
      (str "but wire '" ++ name ++ str "' is assigned directly here:") assignSpan)
  | .doubleDeclaredRegisterOutWire name old new =>
    pure (located2 (str "Wire '" ++ name ++ str "' used by register declared here:") old
      (str "but would also be used by register declared here:") new)
  | .redeclaredBuiltinWire name span fixed =>
    pure (located (str "Builtin wire '" ++ name ++ str "' (part of the " ++ fixed ++ str ") redeclared here:") span)
  | .partialFixedInput name found missing =>
    pure (.text (error (str "Wire " ++ listWithAnd found ++ str " set, but not the rest of the " ++ name ++ str ".")) ::
          (if missing.length > 0 then [.text (errorContinue (str "(Did you mean to set " ++ listWithAnd missing ++ str "?)"))] else []))
  | .invalidWireWidth span => pure (located (str "Invalid wire width specified.") span)
  | .invalidRegisterBankName name span =>
    pure (located (str "Register bank name '" ++ name ++ str "' invalid.\nRegister bank names must be two characters.\nThe first character (input prefix) must be a lowercase letter.\nThe second character (output prefix) must be an uppercase lettter.") span)
  | .invalidBitIndex expr index => pure (located (str "Bit index '" ++ dec index ++ str "' out of range for expression:") expr)
  | .nonBooleanWidth expr => pure (located (str "Non-boolean value used with boolean operator:") expr)
  | .noBitWidth expr => pure (located (str "Expression with unknown width used in bit concatenation:") expr)
  | .misorderedBitIndexes expr => pure (located (str "Bit selection expression selects less than 0 bits:") expr)
  | .missingWireWidth span => pure (located (str "Wire declaration missing width:") span)
  | .wireAssignedInDeclaration span => pure (located (str "Wire declaration must be separate from assignment:") span)
  | .missingRegisterWidth span => pure (located (str "Register declaration missing width:") span)
  | .addedConstWidth span => pure (located (str "Constant declaration has unsupported explicit width:") span)
  | .missingAssignmentMux span => pure (located (str "Syntax error; probably missing '=' after here:") span)
  | .registerDeclaredWithWire span =>
    pure [.text (error (str "Syntax error; attempting to use 'wire' to declare registers in a register bank?:")),
          .text (errorContinue (str "(correct syntax is like 'register xY { register_name : width = default; }')")), .region span]
  | .noMuxDefaultOption expr =>
    pure (located (str "Mux (case expression) missing required default option (e.g. '1 : some_value;'):") expr)
  | .multipleMuxDefaultOption expr =>
    pure [.text (error (str "Mux (case expression) has multiple conditions which are always true:")), .region expr,
          .text (errorContinue (str "(using constants instead of the result of comparing wires to constants?)"))]
  | .unreachableOptions expr =>
    pure [.text (error (str "Mux (case expression) has at least one case that will never be reached:")), .region expr,
          .text (errorContinue (str "(put cases after a default case?)"))]
  | .invalidConstant span => pure (located (str "Constant value is out of range:") span)
  | .wireTooWide expr => pure (located (str "Expression would produce a value wider than supported (128 bits):") expr)
  | .unterminatedComment start => pure (located (str "Unterminated comment starting here:") (start, start + 2))
  | .lexicalError start => pure (located (str "Parse error here:") (start, start + 1))
  | .invalidToken start => pure (located (str "Parse error here:") (start, start + 1))
  | .emptyFile => pure [.text (error (str "Empty input file."))]
  | .unparseableLine line => pure [.text (error (str "Could not parse '" ++ line ++ str "' in .yo file."))]
  | .unrecognizedToken location expected => do
    let token : Bytes :=
      if location.2 ≥ fc.data.length then str "<end of file>"
      else (Yo.get fc.data location.1 location.2).getD (str "<end of file>")
    let expectedFormatted ← formatTokenList expected
    let hint : Bytes ←
      if expected.contains (quoted ";") then do
        let (_, start, _) ← Io.lineNumberAndBounds fc location.1
        let before ← Yo.index fc.data start location.1
        pure (if allWhitespace before then errorContinue (str "(Missing semicolon before this?)") else [])
      else pure []
    pure [.text (error (str "Unexpected token '" ++ token ++ str "', expected " ++ expectedFormatted ++ str ":")), .text hint, .region location]
  | .extraToken span => do
    let token ← Yo.index fc.data span.1 span.2
    pure (located (str "Unexpected token '" ++ token ++ str "':") span)
  | .wireLoop lst =>
    pure [.text (error (str "Circular dependency detected:")), .text (loopLines lst lst.length 0)]
  | .expectedStatementFoundExpr expr => pure (located (str "Found expression, expected assignment or declaration:") expr)
  | .internalParserErrorNear span info =>
    pure [.text (error (str "Internal parser error near or before here:")), .region span,
          .text (errorContinue (str "Syntax error, parser bug, or both.\nInternal info about error: " ++ info))]
  | .ioError display => pure [.text (error display)]
  | .fmtError display => pure [.text (error display)]

/-- the writes carried out: the regions are `Io.showRegion` -/
def emit (fc : Io.FileContents) : List Piece → R Bytes
  | [] => pure []
  | .text b :: rest => do
    let r ← emit fc rest
    pure (b ++ r)
  | .region s :: rest => do
    let a ← Io.showRegion fc s.1 s.2
    let r ← emit fc rest
    pure (a ++ r)

/-- one arm of `format_for_contents` -/
def renderOne (fc : Io.FileContents) (v : ErrV) : R Bytes := do
  let pieces ← layout fc v
  emit fc pieces

mutual
/-- `Error::format_for_contents` -/
def render (fc : Io.FileContents) : ErrV → R Bytes
  | .multiple vs => renderList fc vs
  | .mismatchedMuxWidths o w => renderOne fc (.mismatchedMuxWidths o w)
  | .mismatchedExprWidths a b c d => renderOne fc (.mismatchedExprWidths a b c d)
  | .mismatchedWireWidths a b c d => renderOne fc (.mismatchedWireWidths a b c d)
  | .mismatchedRegisterDefaultWidths a b c d e => renderOne fc (.mismatchedRegisterDefaultWidths a b c d e)
  | .duplicateRegister a b => renderOne fc (.duplicateRegister a b)
  | .runtimeMismatchedWidths => renderOne fc .runtimeMismatchedWidths
  | .divideByZero => renderOne fc .divideByZero
  | .undeclaredWireAssigned a b c => renderOne fc (.undeclaredWireAssigned a b c)
  | .undeclaredWireRead a b c => renderOne fc (.undeclaredWireRead a b c)
  | .nonConstantWireRead a b => renderOne fc (.nonConstantWireRead a b)
  | .unsetWire a b => renderOne fc (.unsetWire a b)
  | .unsetBuiltinWire a => renderOne fc (.unsetBuiltinWire a)
  | .unsetUndeclaredWire a => renderOne fc (.unsetUndeclaredWire a)
  | .unsetRegisterInputWire a b => renderOne fc (.unsetRegisterInputWire a b)
  | .redeclaredWire a b c => renderOne fc (.redeclaredWire a b c)
  | .doubleAssignedWire a b c => renderOne fc (.doubleAssignedWire a b c)
  | .doubleAssignedRegisterWire a b c => renderOne fc (.doubleAssignedRegisterWire a b c)
  | .doubleDeclaredRegisterOutWire a b c => renderOne fc (.doubleDeclaredRegisterOutWire a b c)
  | .doubleAssignedFixedOutWire a b c => renderOne fc (.doubleAssignedFixedOutWire a b c)
  | .assignedConstant a b c => renderOne fc (.assignedConstant a b c)
  | .redeclaredBuiltinWire a b c => renderOne fc (.redeclaredBuiltinWire a b c)
  | .partialFixedInput a b c => renderOne fc (.partialFixedInput a b c)
  | .wireLoop a => renderOne fc (.wireLoop a)
  | .invalidWireWidth a => renderOne fc (.invalidWireWidth a)
  | .invalidRegisterBankName a b => renderOne fc (.invalidRegisterBankName a b)
  | .invalidBitIndex a b => renderOne fc (.invalidBitIndex a b)
  | .nonBooleanWidth a => renderOne fc (.nonBooleanWidth a)
  | .noBitWidth a => renderOne fc (.noBitWidth a)
  | .misorderedBitIndexes a => renderOne fc (.misorderedBitIndexes a)
  | .invalidConstant a => renderOne fc (.invalidConstant a)
  | .wireTooWide a => renderOne fc (.wireTooWide a)
  | .expectedStatementFoundExpr a => renderOne fc (.expectedStatementFoundExpr a)
  | .unterminatedComment a => renderOne fc (.unterminatedComment a)
  | .lexicalError a => renderOne fc (.lexicalError a)
  | .internalParserErrorNear a b => renderOne fc (.internalParserErrorNear a b)
  | .missingWireWidth a => renderOne fc (.missingWireWidth a)
  | .wireAssignedInDeclaration a => renderOne fc (.wireAssignedInDeclaration a)
  | .missingRegisterWidth a => renderOne fc (.missingRegisterWidth a)
  | .addedConstWidth a => renderOne fc (.addedConstWidth a)
  | .missingAssignmentMux a => renderOne fc (.missingAssignmentMux a)
  | .registerDeclaredWithWire a => renderOne fc (.registerDeclaredWithWire a)
  | .noMuxDefaultOption a => renderOne fc (.noMuxDefaultOption a)
  | .multipleMuxDefaultOption a => renderOne fc (.multipleMuxDefaultOption a)
  | .unreachableOptions a => renderOne fc (.unreachableOptions a)
  | .emptyFile => renderOne fc .emptyFile
  | .unparseableLine a => renderOne fc (.unparseableLine a)
  | .invalidToken a => renderOne fc (.invalidToken a)
  | .unrecognizedToken a b => renderOne fc (.unrecognizedToken a b)
  | .extraToken a => renderOne fc (.extraToken a)
  | .ioError a => renderOne fc (.ioError a)
  | .fmtError a => renderOne fc (.fmtError a)
/-- `for item in vec { item.format_for_contents(output, contents)?; }` -/
def renderList (fc : Io.FileContents) : List ErrV → R Bytes
  | [] => pure []
  | v :: vs => do
    let a ← render fc v
    let b ← renderList fc vs
    pure (a ++ b)
end

end Errors
