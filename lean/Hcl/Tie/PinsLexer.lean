import Hcl.Generated

/-! Text pins (written by tools/mkpins.py): the comment-free, whitespace-normalised bodies of functions that the
    hand-written model transcribes, as they were when the model was last validated against them.  An edit of one
    of these functions makes the `rfl` below fail; the check then looks for an input on which model and code
    differ, and reports the property as no longer shown to hold when it finds none. -/

namespace Tie.PinsLexer

/-- `fn next(&mut self)`, src/lexer.rs -/
theorem pinLexerNext : Generated.pinLexerNext = ("loop { if let Some((i, c)) = self.internal_next() { debug!(\"read {:?}\", (i, c)); if c.is_whitespace() { debug!(\"skip whitespace\"); continue; } else if is_start_identifier_char(c) { debug!(\"identifier?\"); let (start, _, end) = self.get_while(i, is_identifier_char); let the_token = self.resolve_identifier(start, end); return Some(Ok((start, the_token, end))); } else if c >= '0' && c <= '9' { debug!(\"integer constant\"); return Some(self.handle_constant(i)); } else { let result = match c { '#' => { debug!(\"# comment\"); self.get_while(i, is_not_newline); continue; }, '/' => { let c2 = self.peek_char(); if c2 == Some('/') { debug!(\" self.get_while(i, is_not_newline); continue; } else if c2 == Some('*') { debug!(\"/* comment\"); let mut found_end = false; loop { self.get_while(i, is_not_star); if self.peek_char() == Some('*') { self.internal_next(); if self.peek_char() == Some('/') { found_end = true; self.internal_next(); break; } } else if self.peek_char() == None { break } } if !found_end { return Some(Err(Error::UnterminatedComment(i))); } continue; } else { simple_token(i, Tok::Divide) } }, '&' => self.choose_token(i, Tok::And, &[('&', Tok::AndAnd)]), '|' => self.choose_token(i, Tok::Or, &[('|', Tok::OrOr)]), '=' => self.choose_token(i, Tok::Assign, &[('=', Tok::Equal)]), '>' => self.choose_token(i, Tok::Greater, &[('>', Tok::RightShift), ('=', Tok::GreaterEqual)]), '<' => self.choose_token(i, Tok::Less, &[('<', Tok::LeftShift), ('=', Tok::LessEqual)]), '!' => self.choose_token(i, Tok::Not, &[('=', Tok::NotEqual)]), ':' => simple_token(i, Tok::Colon), '~' => simple_token(i, Tok::Complement), ',' => simple_token(i, Tok::Comma), ';' => simple_token(i, Tok::Semicolon), '.' => { if self.peek_char() == Some('.') { self.internal_next(); debug!(\"token: ..\"); Ok((i, Tok::DotDot, i + 2)) } else { debug!(\"lexical error from ._\"); Err(Error::LexicalError(i)) } }, '+' => simple_token(i, Tok::Plus), '-' => simple_token(i, Tok::Minus), '^' => simple_token(i, Tok::Xor), '*' => simple_token(i, Tok::Times), '(' => simple_token(i, Tok::OpenParen), ')' => simple_token(i, Tok::CloseParen), '[' => simple_token(i, Tok::OpenBracket), ']' => simple_token(i, Tok::CloseBracket), '{' => simple_token(i, Tok::OpenBrace), '}' => simple_token(i, Tok::CloseBrace), _ => { debug!(\"lexical error from unknown character\"); Err(Error::LexicalError(i)) }, }; return Some(result); } } else { return None; } }" : String) := by rfl

/-- `fn choose_token(&mut self`, src/lexer.rs -/
theorem pinLexerChooseToken : Generated.pinLexerChooseToken = ("let peeked = self.peek_char(); for option in options { if Some(option.0) == peeked { debug!(\"token {:?}\", option.1); self.internal_next(); return Ok((start, option.1, start + 2)) } } debug!(\"token {:?}\", default); Ok((start, default, start + 1))" : String) := by rfl

/-- `fn get_while<F>(&mut self`, src/lexer.rs -/
theorem pinLexerGetWhile : Generated.pinLexerGetWhile = ("let mut last = self.input.len(); while let Some((i, c)) = self.internal_next() { if f(c) { } else { last = i; self.unget(); break; } } (start, self.extract(start, last), last)" : String) := by rfl

/-- `fn internal_next(&mut self)`, src/lexer.rs -/
theorem pinLexerInternalNext : Generated.pinLexerInternalNext = ("match self.pending { Some(_) => { debug!(\"next from unget\"); self.last = self.pending; self.pending = None; }, None => { self.last = self.chars.next() } } if let Some((new_loc, _)) = self.last { LAST_LOC.with(|loc| { *loc.borrow_mut() = new_loc }); } assert_eq!(self.pending, None); debug!(\"next is {:?}\", self.last); self.last" : String) := by rfl

/-- `fn resolve_identifier(&self`, src/lexer.rs -/
theorem pinLexerResolveIdentifier : Generated.pinLexerResolveIdentifier = ("let name = self.extract(start, end); match name { \"wire\" => Tok::Wire, \"const\" => Tok::Const, \"register\" => Tok::Register, \"in\" => Tok::In, _ => Tok::Identifier(name), }" : String) := by rfl

end Tie.PinsLexer
