import Hcl.Proofs.ReorderClock
open Rust

/-! Reordering the statements of a program changes nothing in its runs (property C12, the runs): the two programs start
    in like states, every cycle takes like states to like states, and whole runs stop after the same number of cycles in
    like states (`StateEq`: the same value on every wire, the same registers, memory, cycle count and status). -/

namespace Reorder

/-- the value-writing actions in either order, then the same state-changing actions -/
theorem actions_stateEqP (fl : Flags) (p₁ p₂ : Program) (hsa : SameActionsP p₁ p₂) (s₁ s₂ t₁ t₂ : State) (h : StateEq s₁ s₂)
    (h₁ : execActions fl p₁.actions s₁ = .ok t₁) (h₂ : execActions fl p₂.actions s₂ = .ok t₂) : StateEq t₁ t₂ :=
  actions_stateEq fl p₁ { p₂ with banks := p₁.banks } ⟨rfl, hsa.split⟩ s₁ s₂ t₁ t₂ h h₁ h₂

theorem stepCycle_stateEqP (fl : Flags) (p₁ p₂ : Program) (hsa : SameActionsP p₁ p₂)
    (hpw : p₁.banks.Pairwise Indep) (hst : ∀ b ∈ p₁.banks, BankStruct b)
    (s₁ s₂ t₁ t₂ : State) (h : StateEq s₁ s₂)
    (h₁ : stepCycle fl p₁ s₁ = .ok t₁) (h₂ : stepCycle fl p₂ s₂ = .ok t₂) : StateEq t₁ t₂ := by
  unfold stepCycle at h₁ h₂
  obtain ⟨u₁, hu₁, h₁⟩ := bind_ok h₁
  obtain ⟨u₂, hu₂, h₂⟩ := bind_ok h₂
  obtain ⟨v₁, hv₁, h₁⟩ := bind_ok h₁
  obtain ⟨v₂, hv₂, h₂⟩ := bind_ok h₂
  have hu := actions_stateEqP fl p₁ p₂ hsa s₁ s₂ u₁ u₂ h hu₁ hu₂
  have hb := processBanks_perm hsa.banks hpw hst u₁.values u₂.values hu.vals
  rw [hv₁, hv₂] at hb
  simp only [pure, Except.pure, Except.ok.injEq] at h₁ h₂
  rw [← h₁, ← h₂]
  exact ⟨hb, hu.regs, hu.mem, by show u₁.cycle + 1 = u₂.cycle + 1; rw [hu.cycle], hu.status⟩

theorem runLoop_stateEqP (fl : Flags) (p₁ p₂ : Program) (hsa : SameActionsP p₁ p₂)
    (hpw : p₁.banks.Pairwise Indep) (hst : ∀ b ∈ p₁.banks, BankStruct b) (timeout : Nat) :
    ∀ (fuel : Nat) (s₁ s₂ t₁ t₂ : State), StateEq s₁ s₂ →
    runLoop fl p₁ timeout fuel s₁ = some (.ok t₁) → runLoop fl p₂ timeout fuel s₂ = some (.ok t₂) → StateEq t₁ t₂
  | 0, _, _, _, _, _, h₁, _ => by simp [runLoop] at h₁
  | fuel + 1, s₁, s₂, t₁, t₂, h, h₁, h₂ => by
    unfold runLoop at h₁ h₂
    rw [isDone_stateEq s₁ s₂ timeout h] at h₁
    by_cases hd : isDone s₂ timeout = true
    · simp only [hd, if_true, Option.some.injEq, pure, Except.pure, Except.ok.injEq] at h₁ h₂
      rw [← h₁, ← h₂]; exact h
    · simp only [hd, Bool.false_eq_true, if_false] at h₁ h₂
      cases hs₁ : stepCycle fl p₁ s₁ with
      | error e => rw [hs₁] at h₁; simp [throw, throwThe, MonadExceptOf.throw] at h₁
      | ok s₁' =>
        cases hs₂ : stepCycle fl p₂ s₂ with
        | error e => rw [hs₂] at h₂; simp [throw, throwThe, MonadExceptOf.throw] at h₂
        | ok s₂' =>
          rw [hs₁] at h₁; rw [hs₂] at h₂
          exact runLoop_stateEqP fl p₁ p₂ hsa hpw hst timeout fuel s₁' s₂' t₁ t₂
            (stepCycle_stateEqP fl p₁ p₂ hsa hpw hst s₁ s₂ s₁' s₂' h hs₁ hs₂) h₁ h₂

theorem runN_stateEqP (fl : Flags) (p₁ p₂ : Program) (hsa : SameActionsP p₁ p₂)
    (hpw : p₁.banks.Pairwise Indep) (hst : ∀ b ∈ p₁.banks, BankStruct b) :
    ∀ (n : Nat) (s₁ s₂ t₁ t₂ : State), StateEq s₁ s₂ →
    runN fl p₁ n s₁ = .ok t₁ → runN fl p₂ n s₂ = .ok t₂ → StateEq t₁ t₂
  | 0, s₁, s₂, t₁, t₂, h, h₁, h₂ => by
    simp only [runN, pure, Except.pure, Except.ok.injEq] at h₁ h₂
    rw [← h₁, ← h₂]; exact h
  | n + 1, s₁, s₂, t₁, t₂, h, h₁, h₂ => by
    simp only [runN] at h₁ h₂
    obtain ⟨u₁, hu₁, h₁⟩ := bind_ok h₁
    obtain ⟨u₂, hu₂, h₂⟩ := bind_ok h₂
    exact runN_stateEqP fl p₁ p₂ hsa hpw hst n u₁ u₂ t₁ t₂
      (stepCycle_stateEqP fl p₁ p₂ hsa hpw hst s₁ s₂ u₁ u₂ h hu₁ hu₂) h₁ h₂

/-- everything the run theorems need of the two programs -/
theorem perm_facts (fl : Flags) (cls : CharClass) (o o' : Orders) (stmts stmts' : List Stmt) (p p' : Program)
    (ho : OrdersOK o) (ho' : OrdersOK o') (hwf : StmtsWF stmts) (hperm : stmts.Perm stmts')
    (h : Program.new fl cls o y86FixedFunctions stmts = .ok p) (h' : Program.new fl cls o' y86FixedFunctions stmts' = .ok p') :
    SameActionsP p p' ∧ p.banks.Pairwise Indep ∧ (∀ b ∈ p.banks, BankStruct b) ∧
    (∀ n, p.constants.get? n = p'.constants.get? n) ∧
    (∀ x ∈ p.banks.flatMap initPairs, ∀ y ∈ p.banks.flatMap initPairs, x.1 = y.1 → x.2 = y.2) := by
  have hsa := Program_new_perm_sameActions fl cls o o' stmts stmts' p p' ho ho' hwf hperm h h'
  obtain ⟨hc, _, _⟩ := Program_new_perm_program fl cls o o' stmts stmts' p p' ho ho' hwf hperm h h'
  obtain ⟨s1, c1, s3, k1, hyp, _, _, _, hpb, _⟩ := Program_new_decompose' fl cls o stmts p hwf h
  obtain ⟨hpw, hst⟩ := banks_indep hyp
  rw [hpb]
  exact ⟨hsa, hpw, hst, hc, initPairs_functional hyp⟩

end Reorder

/-- **Reordering the statements, every cycle**: started in like states (the same value on every wire, the same
    registers, memory, cycle count and status), one cycle of the program built from a statement list and one cycle of the
    program built from a permutation of it end in like states. -/
theorem Program_new_perm_cycle (fl : Flags) (cls : CharClass) (o o' : Orders) (stmts stmts' : List Stmt) (p p' : Program)
    (ho : OrdersOK o) (ho' : OrdersOK o') (hwf : StmtsWF stmts) (hperm : stmts.Perm stmts')
    (h : Program.new fl cls o y86FixedFunctions stmts = .ok p) (h' : Program.new fl cls o' y86FixedFunctions stmts' = .ok p')
    (s s' t t' : State) (hs : StateEq s s')
    (hc : stepCycle fl p s = .ok t) (hc' : stepCycle fl p' s' = .ok t') : StateEq t t' := by
  obtain ⟨hsa, hpw, hst, _, _⟩ := Reorder.perm_facts fl cls o o' stmts stmts' p p' ho ho' hwf hperm h h'
  exact Reorder.stepCycle_stateEqP fl p p' hsa hpw hst s s' t t' hs hc hc'

/-- **Reordering the statements, the initial state**: on the same memory image the two programs start in like states. -/
theorem Program_new_perm_init (fl : Flags) (cls : CharClass) (o o' : Orders) (stmts stmts' : List Stmt) (p p' : Program)
    (ho : OrdersOK o) (ho' : OrdersOK o') (hwf : StmtsWF stmts) (hperm : stmts.Perm stmts')
    (h : Program.new fl cls o y86FixedFunctions stmts = .ok p) (h' : Program.new fl cls o' y86FixedFunctions stmts' = .ok p')
    (mem : Mem) (s s' : State) (hi : State.init p mem = .ok s) (hi' : State.init p' mem = .ok s') : StateEq s s' := by
  obtain ⟨hsa, _, _, hcs, hfun⟩ := Reorder.perm_facts fl cls o o' stmts stmts' p p' ho ho' hwf hperm h h'
  unfold State.init at hi hi'
  obtain ⟨vals, hv, hi⟩ := bind_ok hi
  obtain ⟨vals', hv', hi'⟩ := bind_ok hi'
  simp only [pure, Except.pure, Except.ok.injEq] at hi hi'
  rw [← hi, ← hi']
  refine ⟨?_, rfl, rfl, rfl, rfl⟩
  funext n
  show vals.get? n = vals'.get? n
  rw [Reorder.initialValues_eq_insertAll p vals hv, Reorder.initialValues_eq_insertAll p' vals' hv']
  exact Reorder.insertAll_get?_congr _ _ _ _ n (hcs n) (fun x => (hsa.banks.flatMap_right _).mem_iff) hfun

/-- **Reordering the statements, whole runs**: the program built from a statement list and the one built from a
    permutation of it (under any iteration orders of the hash tables) start from like states on the same memory image,
    stop after the same number of cycles, and end with the same registers, memory, status and value on every wire -- so
    everything printed from the final state, and each cycle's values under `-d`, coincides. -/
theorem Program_new_perm_run (fl : Flags) (cls : CharClass) (o o' : Orders) (stmts stmts' : List Stmt) (p p' : Program)
    (ho : OrdersOK o) (ho' : OrdersOK o') (hwf : StmtsWF stmts) (hperm : stmts.Perm stmts')
    (h : Program.new fl cls o y86FixedFunctions stmts = .ok p) (h' : Program.new fl cls o' y86FixedFunctions stmts' = .ok p')
    (mem : Mem) (timeout fuel : Nat) (s s' t t' : State)
    (hi : State.init p mem = .ok s) (hi' : State.init p' mem = .ok s')
    (hr : runLoop fl p timeout fuel s = some (.ok t)) (hr' : runLoop fl p' timeout fuel s' = some (.ok t')) :
    StateEq s s' ∧ StateEq t t' := by
  have hinit := Program_new_perm_init fl cls o o' stmts stmts' p p' ho ho' hwf hperm h h' mem s s' hi hi'
  obtain ⟨hsa, hpw, hst, _, _⟩ := Reorder.perm_facts fl cls o o' stmts stmts' p p' ho ho' hwf hperm h h'
  exact ⟨hinit, Reorder.runLoop_stateEqP fl p p' hsa hpw hst timeout fuel s s' t t' hinit hr hr'⟩

/-- the same for `n` calls of `step()` -/
theorem Program_new_perm_runN (fl : Flags) (cls : CharClass) (o o' : Orders) (stmts stmts' : List Stmt) (p p' : Program)
    (ho : OrdersOK o) (ho' : OrdersOK o') (hwf : StmtsWF stmts) (hperm : stmts.Perm stmts')
    (h : Program.new fl cls o y86FixedFunctions stmts = .ok p) (h' : Program.new fl cls o' y86FixedFunctions stmts' = .ok p')
    (n : Nat) (s s' t t' : State) (hs : StateEq s s')
    (hr : runN fl p n s = .ok t) (hr' : runN fl p' n s' = .ok t') : StateEq t t' := by
  obtain ⟨hsa, hpw, hst, _, _⟩ := Reorder.perm_facts fl cls o o' stmts stmts' p p' ho ho' hwf hperm h h'
  exact Reorder.runN_stateEqP fl p p' hsa hpw hst n s s' t t' hs hr hr'

#print axioms Program_new_perm_cycle
#print axioms Program_new_perm_init
#print axioms Program_new_perm_run
#print axioms Program_new_perm_runN
