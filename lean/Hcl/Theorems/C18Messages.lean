import Hcl.Proofs.MessagesSpec
import Hcl.Theorems.C05
open Rust Dump

/-!
# C18 — the built-in component messages report the addresses, register numbers and data actually used

`Dump.actionMessage fl assigns a s` is the line the real `step_with_output` prints for action `a` when it executes in
state `s` (`-d`: built-in components only; `--trace-assignments`: also one line per assignment); `Dump.cycleMessages`
threads the state through the action list exactly as `execActions` does.  That these are the lines the real program
prints is the correspondence stream `messages` (request `(messages …)` of the driver).

The theorems below say, action by action, that what is printed is what `execAction` uses: the printed value is the
value stored on the output wire / in memory / in the register file, the printed address and register number are the
values of the address and number wires, the printed register name is the CS:APP name of that number.  Printing
does not influence the simulation (`C18_messages_do_not_change_state`).
-/

/-- the names printed for register numbers 0–15, then `unknown` (never printed: the lines appear only for numbers below 16) -/
theorem C18_register_names :
    (List.range 17).map nameRegister =
      ["%rax", "%rcx", "%rdx", "%rbx", "%rsp", "%rbp", "%rsi", "%rdi", "%r8", "%r9", "%r10", "%r11", "%r12", "%r13", "%r14",
       "NONE", "unknown"] := by decide

/-! ### memory read port -/

/-- **memory read, enabled**: the output wire gets the little-endian value of the `bytes` bytes at the address wire's
    value (modulo 2^64); the line shows exactly that value and the address wire's value. -/
theorem C18_message_memory_read (fl : Flags) (assigns : Bool) (s : State) (rb addr out : String) (bytes : Nat)
    (ev av : WireValue) (he : s.values.toEnv rb = some ev) (hpos : ev.bits ≠ 0) (ha : s.values.toEnv addr = some av) :
    ∃ v : WireValue,
      execAction fl s (.readMem (some rb) addr out bytes false) = .ok { s with values := s.values.insert out v } ∧
      (s.values.insert out v).toEnv out = some v ∧
      v.bits = Spec.rdLE (absMem s.mem) (av.bits % 2 ^ 64) bytes ∧ v.width = .bits (bytes * 8) ∧
      actionMessage fl assigns (.readMem (some rb) addr out bytes false) s =
        [out ++ " set to 0x" ++ toHex v.bits ++ " (reading " ++ toDec bytes ++ " bytes from memory at " ++ addr ++ "=0x" ++
          toHex av.bits ++ ")"] := by
  obtain ⟨h1, h2⟩ := readMem_on fl assigns s rb addr out bytes false ev av he hpos ha
  refine ⟨⟨s.mem.read (av.bits % U64) bytes, .bits (bytes * 8)⟩, h1, ?_, ?_, rfl, ?_⟩
  · simp [AMap.toEnv_insert]
  · simp only [C05_read_spec, U64]
  · rw [h2]; rfl

/-- **memory read without an enable wire** (the instruction memory, `isInstruction` arbitrary): same report -/
theorem C18_message_memory_read_always (fl : Flags) (assigns : Bool) (s : State) (addr out : String) (bytes : Nat)
    (instr : Bool) (av : WireValue) (ha : s.values.toEnv addr = some av) :
    ∃ v : WireValue,
      execAction fl s (.readMem none addr out bytes instr) = .ok { s with values := s.values.insert out v } ∧
      (s.values.insert out v).toEnv out = some v ∧
      v.bits = Spec.rdLE (absMem s.mem) (av.bits % 2 ^ 64) bytes ∧ v.width = .bits (bytes * 8) ∧
      actionMessage fl assigns (.readMem none addr out bytes instr) s =
        [out ++ " set to 0x" ++ toHex v.bits ++ " (reading " ++ toDec bytes ++ " bytes from memory at " ++ addr ++ "=0x" ++
          toHex av.bits ++ ")"] := by
  obtain ⟨h1, h2⟩ := readMem_always fl assigns s addr out bytes instr av ha
  refine ⟨⟨s.mem.read (av.bits % U64) bytes, .bits (bytes * 8)⟩, h1, ?_, ?_, rfl, ?_⟩
  · simp [AMap.toEnv_insert]
  · simp only [C05_read_spec, U64]
  · rw [h2]; rfl

/-- **memory read, disabled**: the line names the enable wire, which is 0; memory is not consulted (the output is the
    zero of the port's width) -/
theorem C18_message_memory_not_read (fl : Flags) (assigns : Bool) (s : State) (rb addr out : String) (bytes : Nat)
    (instr : Bool) (ev : WireValue) (he : s.values.toEnv rb = some ev) (hz : ev.bits = 0) (hb : bytes * 8 ≤ 128) :
    execAction fl s (.readMem (some rb) addr out bytes instr) =
      .ok { s with values := s.values.insert out ⟨0, .bits (bytes * 8)⟩ } ∧
    actionMessage fl assigns (.readMem (some rb) addr out bytes instr) s =
      ["not reading from memory since " ++ rb ++ " is 0"] := by
  obtain ⟨h1, h2⟩ := readMem_off fl assigns s rb addr out bytes instr ev he hz
  have hzero : asWidth ⟨0, .unlimited⟩ (.bits (bytes * 8)) = .ok ⟨0, .bits (bytes * 8)⟩ := by
    have := maskStep (.bits (bytes * 8)) hb 0
    simpa [asWidth, bind, Except.bind, pure, Except.pure] using this
  constructor
  · rw [h1, hzero]; rfl
  · rw [h2]; rfl

/-! ### memory write port -/

/-- **memory write, enabled**: the line shows the value of the data wire (in decimal, as the real program prints it)
    and the value of the address wire; the memory afterwards is the specified byte-wise little-endian store of
    exactly that value at exactly that address (modulo 2^64); nothing else changes. -/
theorem C18_message_memory_write (fl : Flags) (assigns : Bool) (s : State) (wr addr inp : String) (bytes : Nat)
    (ev av iv : WireValue) (he : s.values.toEnv wr = some ev) (hpos : ev.bits ≠ 0)
    (ha : s.values.toEnv addr = some av) (hi : s.values.toEnv inp = some iv) :
    ∃ m' : Mem,
      execAction fl s (.writeMem (some wr) addr inp bytes) = .ok { s with mem := m' } ∧
      absMem m' = Spec.wrLE (absMem s.mem) (av.bits % 2 ^ 64) iv.bits bytes ∧
      actionMessage fl assigns (.writeMem (some wr) addr inp bytes) s =
        ["writing " ++ inp ++ "=" ++ toDec iv.bits ++ " to memory at " ++ addr ++ "=0x" ++ toHex av.bits] := by
  obtain ⟨h1, h2⟩ := writeMem_on fl assigns s wr addr inp bytes ev av iv he hpos ha hi
  refine ⟨_, h1, ?_, ?_⟩
  · rw [C05_write_spec]; simp only [U64]
  · rw [h2]; rfl

/-- **memory write, disabled**: nothing changes and the line names the enable wire -/
theorem C18_message_memory_not_written (fl : Flags) (assigns : Bool) (s : State) (wr addr inp : String) (bytes : Nat)
    (ev : WireValue) (he : s.values.toEnv wr = some ev) (hz : ev.bits = 0) :
    execAction fl s (.writeMem (some wr) addr inp bytes) = .ok s ∧
    actionMessage fl assigns (.writeMem (some wr) addr inp bytes) s = ["not writing to memory since " ++ wr ++ " is 0"] := by
  obtain ⟨h1, h2⟩ := writeMem_off fl assigns s wr addr inp bytes ev he hz
  exact ⟨h1, by rw [h2]; rfl⟩

/-! ### register read port -/

/-- **register read**: for a number below 16 the output wire gets the content of that register as it is when the
    action executes, and the line shows that content, the value of the number wire and its CS:APP name. -/
theorem C18_message_register_read (fl : Flags) (assigns : Bool) (s : State) (number out : String) (nv : WireValue)
    (hn : s.values.toEnv number = some nv) (hlen : s.regs.length = 16) (hlt : nv.bits < 16) :
    execAction fl s (.readReg number out) = .ok { s with values := s.values.insert out ⟨s.regs.getD nv.bits 0, .bits 64⟩ } ∧
    (s.values.insert out ⟨s.regs.getD nv.bits 0, .bits 64⟩).toEnv out = some ⟨s.regs.getD nv.bits 0, .bits 64⟩ ∧
    actionMessage fl assigns (.readReg number out) s =
      ["set " ++ out ++ " to 0x" ++ toHex (s.regs.getD nv.bits 0) ++ " from register " ++ number ++ "=" ++ toDec nv.bits ++
        " (" ++ nameRegister nv.bits ++ ")"] := by
  obtain ⟨h1, h2⟩ := readReg_spec fl assigns s number out nv hn
  have hm : nv.bits % U64 = nv.bits := Nat.mod_eq_of_lt (by unfold U64; omega)
  have hl : nv.bits < s.regs.length := by omega
  rw [hm] at h1 h2
  simp only [hl, if_true] at h1 h2
  refine ⟨h1, ?_, ?_⟩
  · simp [AMap.toEnv_insert]
  · rw [h2]; rfl

/-- the general form (`number as usize` is the wire's value modulo 2^64; a number that is not below the size of the
    register file gives 0 and no line) -/
theorem C18_message_register_read_general (fl : Flags) (assigns : Bool) (s : State) (number out : String) (nv : WireValue)
    (hn : s.values.toEnv number = some nv) :
    execAction fl s (.readReg number out) =
      .ok { s with values := s.values.insert out (WireValue.mk
              (if nv.bits % 2 ^ 64 < s.regs.length then s.regs.getD (nv.bits % 2 ^ 64) 0 else 0) (.bits 64)) } ∧
    actionMessage fl assigns (.readReg number out) s =
      if nv.bits % 2 ^ 64 < s.regs.length then
        ["set " ++ out ++ " to 0x" ++ toHex (s.regs.getD (nv.bits % 2 ^ 64) 0) ++ " from register " ++ number ++ "=" ++
          toDec (nv.bits % 2 ^ 64) ++ " (" ++ nameRegister (nv.bits % 2 ^ 64) ++ ")"]
      else [] := by
  obtain ⟨h1, h2⟩ := readReg_spec fl assigns s number out nv hn
  simp only [U64] at h1 h2
  exact ⟨h1, by rw [h2]; rfl⟩

/-- the value-writing actions (assignments, register and memory reads) leave the register file and the memory alone -/
theorem execPure_regs_mem (fl : Flags) : ∀ (acts : List Action) (s t : State),
    (∀ a ∈ acts, a.isPure = true) → execActions fl acts s = .ok t → t.regs = s.regs ∧ t.mem = s.mem
  | [], s, t, _, h => by simp [execActions, pure, Except.pure] at h; subst h; exact ⟨rfl, rfl⟩
  | a :: rest, s, t, hp, h => by
    simp only [execActions] at h
    obtain ⟨s₁, h₁, h₂⟩ := bind_ok h
    rw [execAction_pure fl s a (hp a (by simp))] at h₁
    obtain ⟨v, _, h₁⟩ := bind_ok h₁
    simp only [pure, Except.pure, Except.ok.injEq] at h₁
    obtain ⟨e₁, e₂⟩ := execPure_regs_mem fl rest s₁ t (fun b hb => hp b (List.mem_cons_of_mem _ hb)) h₂
    rw [e₁, e₂, ← h₁]
    exact ⟨rfl, rfl⟩

/-- **register read, within a cycle**: when the register read comes after value-writing actions only (as in every
    schedule the constructor produces: the register and memory writes come last), the content shown is the
    register's content at the START of the cycle, i.e. before this cycle's writes. -/
theorem C18_message_register_read_in_cycle (fl : Flags) (assigns : Bool) (p : Program) (s s₁ t : State)
    (pre post : List Action) (number out : String) (nv : WireValue) (ls : List String)
    (hacts : p.actions = pre ++ .readReg number out :: post) (hpure : ∀ a ∈ pre, a.isPure = true)
    (hpre : execActions fl pre s = .ok s₁) (hn : s₁.values.toEnv number = some nv)
    (hlen : s.regs.length = 16) (hlt : nv.bits < 16)
    (h : cycleMessages fl assigns p s = .ok (ls, t)) :
    ("set " ++ out ++ " to 0x" ++ toHex (s.regs.getD nv.bits 0) ++ " from register " ++ number ++ "=" ++ toDec nv.bits ++
        " (" ++ nameRegister nv.bits ++ ")") ∈ ls := by
  simp only [cycleMessages] at h
  obtain ⟨r, hr, h⟩ := bind_ok h
  obtain ⟨vals, _, h⟩ := bind_ok h
  simp only [pure, Except.pure, Except.ok.injEq, Prod.mk.injEq] at h
  rw [hacts] at hr
  obtain ⟨l₁, l₂, hl⟩ := actionsMessages_mid (ls := r.1) (t := r.2) hpre (by rw [hr])
  obtain ⟨hregs, _⟩ := execPure_regs_mem fl pre s s₁ hpure hpre
  have hm := (C18_message_register_read fl assigns s₁ number out nv hn (by rw [hregs]; exact hlen) hlt).2.2
  rw [hregs] at hm
  rw [← h.1, hl, hm]
  simp

/-! ### register write port -/

/-- **register write**: the line is printed exactly when the write happens (number below 16 and not 15, the "no
    register" number); it shows the value stored (the data wire's value truncated to 64 bits), the number wire's value
    and its name; the register file afterwards holds that value in that register and is otherwise unchanged. -/
theorem C18_message_register_write (fl : Flags) (assigns : Bool) (s : State) (number inp : String) (nv iv : WireValue)
    (hn : s.values.toEnv number = some nv) (hi : s.values.toEnv inp = some iv) (hlen : s.regs.length = 16) :
    (nv.bits % 2 ^ 64 < 15 →
      ∃ regs' : List Nat, execAction fl s (.writeReg number inp) = .ok { s with regs := regs' } ∧
        regs'.getD (nv.bits % 2 ^ 64) 0 = iv.bits % 2 ^ 64 ∧
        (∀ j, j ≠ nv.bits % 2 ^ 64 → regs'.getD j 0 = s.regs.getD j 0) ∧ regs'.length = 16 ∧
        actionMessage fl assigns (.writeReg number inp) s =
          ["writing " ++ inp ++ "=0x" ++ toHex (iv.bits % 2 ^ 64) ++ " into register " ++ number ++ "=" ++
            toDec (nv.bits % 2 ^ 64) ++ " (" ++ nameRegister (nv.bits % 2 ^ 64) ++ ")"]) ∧
    (¬ nv.bits % 2 ^ 64 < 15 →
      execAction fl s (.writeReg number inp) = .ok s ∧ actionMessage fl assigns (.writeReg number inp) s = []) := by
  obtain ⟨h1, h2⟩ := writeReg_spec fl assigns s number inp nv iv hn hi
  simp only [U64, hlen] at h1 h2
  constructor
  · intro hlt
    have hc : nv.bits % 2 ^ 64 < 16 ∧ nv.bits % 2 ^ 64 ≠ 15 := by omega
    rw [if_pos hc] at h1 h2
    refine ⟨_, h1, ?_, ?_, ?_, ?_⟩
    · simp [List.getD_eq_getElem?_getD, hlen, hc.1]
    · intro j hj
      simp only [List.getD_eq_getElem?_getD]
      rw [List.getElem?_set_ne (Ne.symm hj)]
    · simp [hlen]
    · rw [h2]; rfl
  · intro hge
    have hc : ¬ (nv.bits % 2 ^ 64 < 16 ∧ nv.bits % 2 ^ 64 ≠ 15) := by omega
    rw [if_neg hc] at h1 h2
    exact ⟨h1, h2⟩

/-! ### assignments -/

/-- **assignment**: whenever the action succeeds, the line printed under `--trace-assignments` shows the value the
    wire holds afterwards; without that option nothing is printed for it. -/
theorem C18_message_assign (fl : Flags) (s s' : State) (name : String) (e : Ex) (w : Width)
    (h : execAction fl s (.assign name e w) = .ok s') :
    ∃ r : WireValue, s'.values.toEnv name = some r ∧
      (∃ v, ev fl s.values.toEnv e = .ok v ∧ asWidth v w = .ok r) ∧
      s' = { s with values := s.values.insert name r } ∧
      actionMessage fl true (.assign name e w) s = [name ++ " set to 0x" ++ toHex r.bits] ∧
      actionMessage fl false (.assign name e w) s = [] := by
  obtain ⟨r, hb, hs, hv, hm, hm'⟩ := assign_spec fl s s' name e w h
  obtain ⟨v, hv1, hv2⟩ := bind_ok hb
  exact ⟨r, hv, ⟨v, hv1, hv2⟩, hs, by rw [hm]; rfl, hm'⟩

/-- the status action prints nothing -/
theorem C18_message_status (fl : Flags) (assigns : Bool) (s : State) (w : String) :
    actionMessage fl assigns (.setStatus w) s = [] := rfl

/-! ### the cycle -/

/-- **printing does not influence the simulation**: the state component of `cycleMessages` is `stepCycle`'s result,
    error for error, for both settings of `assigns` -/
theorem C18_messages_do_not_change_state (fl : Flags) (assigns : Bool) (p : Program) (s : State) :
    Except.map Prod.snd (cycleMessages fl assigns p s) = stepCycle fl p s :=
  cycleMessages_snd fl assigns p s

theorem C18_messages_ok_iff (fl : Flags) (assigns : Bool) (p : Program) (s t : State) :
    (∃ ls, cycleMessages fl assigns p s = .ok (ls, t)) ↔ stepCycle fl p s = .ok t := by
  rw [← C18_messages_do_not_change_state fl assigns p s]
  cases h : cycleMessages fl assigns p s with
  | error e => simp [Except.map]
  | ok r =>
    obtain ⟨ls, t'⟩ := r
    simp [Except.map]

/-- every line of a cycle is the line of one of the program's actions, computed in the state in which that action
    executes (the state reached by the actions before it) -/
theorem C18_cycle_lines_are_action_lines (fl : Flags) (assigns : Bool) (p : Program) (s s₁ t : State)
    (pre post : List Action) (a : Action) (ls : List String)
    (hacts : p.actions = pre ++ a :: post) (hpre : execActions fl pre s = .ok s₁)
    (h : cycleMessages fl assigns p s = .ok (ls, t)) :
    ∃ l₁ l₂, ls = l₁ ++ actionMessage fl assigns a s₁ ++ l₂ := by
  simp only [cycleMessages] at h
  obtain ⟨r, hr, h⟩ := bind_ok h
  obtain ⟨vals, _, h⟩ := bind_ok h
  simp only [pure, Except.pure, Except.ok.injEq, Prod.mk.injEq] at h
  rw [hacts] at hr
  obtain ⟨l₁, l₂, hl⟩ := actionsMessages_mid (ls := r.1) (t := r.2) hpre (by rw [hr])
  exact ⟨l₁, l₂, by rw [← h.1, hl]⟩

/-- `--trace-assignments` only adds lines to those of `-d`, and reaches the same state -/
theorem C18_trace_extends_debug (fl : Flags) (p : Program) (s t t' : State) (ls ls' : List String)
    (h : cycleMessages fl false p s = .ok (ls, t)) (h' : cycleMessages fl true p s = .ok (ls', t')) :
    ls.Sublist ls' ∧ t = t' := by
  simp only [cycleMessages] at h h'
  obtain ⟨r, hr, h⟩ := bind_ok h
  obtain ⟨vals, hv, h⟩ := bind_ok h
  obtain ⟨r', hr', h'⟩ := bind_ok h'
  obtain ⟨vals', hv', h'⟩ := bind_ok h'
  simp only [pure, Except.pure, Except.ok.injEq, Prod.mk.injEq] at h h'
  obtain ⟨hs, ht⟩ := actionsMessages_sublist fl p.actions s r.2 r'.2 r.1 r'.1 (by rw [hr]) (by rw [hr'])
  rw [← ht, hv] at hv'
  cases hv'
  rw [← h.1, ← h'.1, ← h.2, ← h'.2, ← ht]
  exact ⟨hs, rfl⟩

/-! ### the hypotheses are satisfiable: a state with an enabled read port, a write port and both register ports -/

def exState : State :=
  { values := [("en", ⟨1, .bits 1⟩), ("addr", ⟨0x10, .bits 64⟩), ("data", ⟨0xABCD, .bits 64⟩), ("src", ⟨4, .bits 4⟩)],
    regs := [0, 1, 2, 3, 0x1234, 5, 6, 7, 8, 9, 10, 11, 12, 13, 14, 0],
    mem := [(0x10, 0xEF), (0x11, 0xBE)] }

example : exState.values.toEnv "en" = some ⟨1, .bits 1⟩ ∧ (1 : Nat) ≠ 0 ∧
    exState.values.toEnv "addr" = some ⟨0x10, .bits 64⟩ ∧ exState.values.toEnv "data" = some ⟨0xABCD, .bits 64⟩ ∧
    exState.values.toEnv "src" = some ⟨4, .bits 4⟩ ∧ exState.regs.length = 16 := by decide

example : actionMessage {} false (.readMem (some "en") "addr" "out" 8 false) exState =
    ["out set to 0xbeef (reading 8 bytes from memory at addr=0x10)"] := by decide
example : actionMessage {} false (.writeMem (some "en") "addr" "data" 8) exState =
    ["writing data=43981 to memory at addr=0x10"] := by decide
example : actionMessage {} false (.readReg "src" "out") exState = ["set out to 0x1234 from register src=4 (%rsp)"] := by decide
example : actionMessage {} false (.writeReg "src" "data") exState = ["writing data=0xabcd into register src=4 (%rsp)"] := by decide
example : actionMessage {} true (.assign "x" (.const ⟨5, .bits 4⟩) (.bits 4)) exState = ["x set to 0x5"] := by decide

#print axioms C18_register_names
#print axioms C18_message_memory_read
#print axioms C18_message_memory_read_always
#print axioms C18_message_memory_not_read
#print axioms C18_message_memory_write
#print axioms C18_message_memory_not_written
#print axioms C18_message_register_read
#print axioms C18_message_register_read_general
#print axioms C18_message_register_read_in_cycle
#print axioms C18_message_register_write
#print axioms C18_message_assign
#print axioms C18_message_status
#print axioms C18_messages_do_not_change_state
#print axioms C18_messages_ok_iff
#print axioms C18_cycle_lines_are_action_lines
#print axioms C18_trace_extends_debug
