import Hcl.Proofs.Stage2

/-! The width table and the set of known values that `Program::new` hands to `assignments_to_actions`. -/

theorem get?_insertAll_none {α : Type} (pairs : List (String × α)) (m : AMap α) (n : String)
    (h : ∀ p ∈ pairs, p.1 ≠ n) : (insertAll m pairs).get? n = m.get? n := by
  induction pairs generalizing m with
  | nil => rfl
  | cons p rest ih =>
    unfold insertAll at ih ⊢
    simp only [List.foldl_cons]
    rw [ih _ (fun q hq => h q (List.mem_cons_of_mem _ hq))]
    exact AMap.get?_insert_ne _ _ _ _ (fun e => h p List.mem_cons_self e.symm)

theorem get?_insertAll_some {α : Type} (pairs : List (String × α)) (m : AMap α) (n : String) (w : α)
    (hex : ∃ p ∈ pairs, p.1 = n) (hall : ∀ p ∈ pairs, p.1 = n → p.2 = w) : (insertAll m pairs).get? n = some w := by
  induction pairs generalizing m with
  | nil => obtain ⟨p, hp, _⟩ := hex; simp at hp
  | cons p rest ih =>
    unfold insertAll at ih ⊢
    simp only [List.foldl_cons]
    by_cases hr : ∃ q ∈ rest, q.1 = n
    · exact ih _ hr (fun q hq => hall q (List.mem_cons_of_mem _ hq))
    · have hnone : ∀ q ∈ rest, q.1 ≠ n := fun q hq e => hr ⟨q, hq, e⟩
      have := get?_insertAll_none rest (m.insert p.1 p.2) n hnone
      unfold insertAll at this
      rw [this]
      obtain ⟨q, hq, hqn⟩ := hex
      rcases List.mem_cons.mp hq with h1 | h1
      · subst h1
        rw [← hqn, AMap.get?_insert_self, hall q List.mem_cons_self hqn]
      · exact absurd ⟨q, h1, hqn⟩ hr

theorem get?_insertAll_cases {α : Type} (pairs : List (String × α)) (m : AMap α) (n : String) (w : α)
    (h : (insertAll m pairs).get? n = some w) : m.get? n = some w ∨ (n, w) ∈ pairs := by
  induction pairs generalizing m with
  | nil => exact Or.inl h
  | cons p rest ih =>
    unfold insertAll at ih h
    simp only [List.foldl_cons] at h
    rcases ih _ h with h1 | h1
    · rw [AMap.get?_insert] at h1
      split at h1
      · rename_i hn
        cases h1
        right; rw [hn]; exact List.mem_cons_self
      · exact Or.inl h1
    · exact Or.inr (List.mem_cons_of_mem _ h1)

theorem mem_foldl_setInsert (l acc : List String) (x : String) : x ∈ l.foldl setInsert acc ↔ x ∈ acc ∨ x ∈ l :=
  (dedupS_aux l acc).1 x

/-! ### names that cannot collide -/

def secondIsUnderscore (s : String) : Bool := s.toList[1]? == some '_'

theorem isSigName_second {n : String} (h : IsSigName n) : secondIsUnderscore n = true := by
  obtain ⟨c, name, rfl⟩ := h
  simp [secondIsUnderscore]

def fixedNamesOf (fixed : List FixedFunction) : List String :=
  dedupS (fixed.flatMap fun f => f.inWires.map (·.1) ++ (match f.outWire with | some (n, _) => [n] | none => []))

def isCtlName (s : String) : Bool :=
  (s.toList.take 6 == "stall_".toList && s.toList.length == 7) || (s.toList.take 7 == "bubble_".toList && s.toList.length == 8)

theorem stall_isCtl (c : Char) : isCtlName ("stall_" ++ String.ofList [c]) = true := by
  simp [isCtlName]

theorem bubble_isCtl (c : Char) : isCtlName ("bubble_" ++ String.ofList [c]) = true := by
  simp [isCtlName]

theorem stall_not_sig (c : Char) : secondIsUnderscore ("stall_" ++ String.ofList [c]) = false := by
  simp [secondIsUnderscore]

theorem bubble_not_sig (c : Char) : secondIsUnderscore ("bubble_" ++ String.ofList [c]) = false := by
  simp [secondIsUnderscore]

theorem y86_names_not_sig : (fixedNamesOf y86FixedFunctions).all (fun n => !secondIsUnderscore n) = true := by
  decide +kernel

theorem y86_names_not_ctl : (fixedNamesOf y86FixedFunctions).all (fun n => !isCtlName n) = true := by
  decide +kernel
