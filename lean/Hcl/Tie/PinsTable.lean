import Hcl.Generated

/-! Text pins (written by tools/mkpins.py): the comment-free, whitespace-normalised bodies of functions that the
    hand-written model transcribes, as they were when the model was last validated against them.  An edit of one
    of these functions makes the `rfl` below fail; the check then looks for an input on which model and code
    differ, and reports the property as no longer shown to hold when it finds none. -/

namespace Tie.PinsTable

/-- `fn find_table_widths(&self`, src/program.rs -/
theorem pinFindTableWidths : Generated.pinFindTableWidths = ("let mut max_name_len = 15; let mut max_value_len = 22; for key in keys { let value = self.values.get(key).unwrap(); let value_width_bits = match value.width { WireWidth::Unlimited => 64, WireWidth::Bits(x) => x, }; let value_width_len = (value_width_bits as usize + 3) / 4 + 2; max_name_len = max(key.len(), max_name_len); max_value_len = max(value_width_len, max_value_len); } (max_name_len, max_value_len)" : String) := by rfl

/-- `fn dump_wire_subtable<W: Write>`, src/program.rs -/
theorem pinDumpWireSubtable : Generated.pinDumpWireSubtable = ("if keys.len() > 0 { writeln!(w, \"{}\", label)?; let (max_name_len, max_value_len) = self.find_table_widths(&keys); if header_p { writeln!(w, \"{:width$} {:>value_width$}\", \"Wire\", \"Value\", width=max_name_len, value_width=max_value_len)?; } keys.sort_unstable_by(|a, b| a.to_ascii_uppercase().cmp(&b.to_ascii_uppercase()).then(a.cmp(&b))); self.dump_wire_table_rows(w, max_name_len, max_value_len, &keys)?; writeln!(w, \"\")?; } Ok(())" : String) := by rfl

end Tie.PinsTable
