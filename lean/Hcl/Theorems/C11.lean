import Hcl.Proofs.LexLiterals
import Hcl.Proofs.LexComments
import Hcl.Proofs.ParseGrouping
import Hcl.Proofs.ParseUnary
import Hcl.Model.Parser
import Hcl.Spec.Grammar
import Hcl.Generated
import Hcl.Util.Format

/-!
# C11 — source text is read with the documented precedence, literals and comments

`Lexer.lex` and `Parser.parseTier` model lexer.rs and the expression grammar of parser.lalrpop
(compared with the real lexer/parser token by token and node by node, spans included).
-/

open Lexer

/-! ### precedence -/

def tokName : Tok → String
  | .OrOr => "||" | .AndAnd => "&&" | .Equal => "==" | .NotEqual => "!=" | .LessEqual => "<=" | .GreaterEqual => ">="
  | .Less => "<" | .Greater => ">" | .Or => "|" | .Xor => "^" | .And => "&" | .LeftShift => "<<" | .RightShift => ">>"
  | .Plus => "+" | .Minus => "-" | .Times => "*" | .Divide => "/" | _ => "?"

/-- **the model's precedence table is the documented one** (loosest first in the model, tightest first in the documentation) -/
theorem C11_model_tiers_documented :
    (Parser.tiers.map fun t => match t with
      | some tier => (tier.ops.map (fun o => tokName o.1), tier.chains)
      | none => (["in"], false)).reverse = Spec.precTable := by decide

/-- follow the `BinTier` chain of the grammar source from `start`: the operator groups in the order the grammar nests them -/
def chainFrom (tiers : List (String × String × String × String)) (inOperand : List String) : Nat → String → List (String × Bool)
  | 0, _ => []
  | fuel+1, name =>
    if name == "ExprIn" then ("in", false) :: (match inOperand with
      | [next] => chainFrom tiers inOperand fuel next
      | _ => [])
    else match tiers.find? (fun t => t.1 == name) with
      | some (_, kind, ops, next) => (ops, kind == "BinTier") :: chainFrom tiers inOperand fuel next
      | none => []

/-- **the grammar source has the documented tiers** (extracted from parser.lalrpop on this run) -/
theorem C11_grammar_tiers_documented :
    chainFrom Generated.grammarTiers Generated.grammarInOperand 20 "ExprLogicalOr" =
      [("BinOpLogicalOr", true), ("BinOpLogicalAnd", true), ("BinOpCompare", false), ("in", false), ("BinOpOr", true),
       ("BinOpXor", true), ("BinOpAnd", true), ("BinOpShift", true), ("BinOpAddSub", true), ("BinOpMulDiv", true)] := by decide

/-- and each operator group of the grammar source holds the documented symbols -/
theorem C11_grammar_ops_documented :
    Generated.grammarOps =
      [("BinOpAddSub", "+", "Add"), ("BinOpAddSub", "-", "Sub"), ("BinOpAnd", "&", "And"), ("BinOpXor", "^", "Xor"), ("BinOpOr", "|", "Or"),
       ("BinOpMulDiv", "*", "Mul"), ("BinOpMulDiv", "/", "Div"), ("BinOpCompare", "==", "Equal"), ("BinOpCompare", "!=", "NotEqual"),
       ("BinOpCompare", "<=", "LessEqual"), ("BinOpCompare", ">=", "GreaterEqual"), ("BinOpCompare", "<", "Less"),
       ("BinOpCompare", ">", "Greater"), ("BinOpLogicalAnd", "&&", "LogicalAnd"), ("BinOpLogicalOr", "||", "LogicalOr"),
       ("BinOpShift", "<<", "LeftShift"), ("BinOpShift", ">>", "RightShift"), ("UnOp", "+", "Plus"), ("UnOp", "-", "Negate"),
       ("UnOp", "~", "Complement"), ("UnOp", "!", "Not")] := by decide

/-! ### the predefined names -/

/-- the value a preamble definition gives a name: its literal read by the lexer model, or the value of the name it refers to -/
def preambleValue (defs : List (String × String)) (name : String) : Option Nat :=
  let litVal (lit : String) : Option Nat :=
    match lex asciiCls lit.toList with
    | [.tok _ (.Constant v) _] => some v.bits
    | _ => none
  match defs.lookup name with
  | none => none
  | some lit =>
    match litVal lit with
    | some v => some v
    | none => (defs.lookup lit).bind litVal

/-- **the predefined Y86 names have their CS:APP values** (preamble text extracted from program.rs on this run) -/
theorem C11_preamble_values :
    Spec.csappValues.all (fun p => preambleValue Generated.preambleConsts p.1 == some p.2) = true := by decide

/-! ### literals -/

/-- **binary literals**: `0b` followed by `n` binary digits, `1 ≤ n ≤ 128`, is one constant, `n` bits wide, whose value
    is the digits read in base 2 (most significant first) -/
theorem C11_binary (bits : List Bool) (hne : bits ≠ []) (hlen : bits.length ≤ 128) :
    lex asciiCls ('0' :: 'b' :: bits.map bitChar) =
      [.tok 0 (.Constant ⟨digitsVal 2 (bits.map bitChar), .bits bits.length⟩) (2 + bits.length)] :=
  lex_binary bits hne hlen

/-- **hexadecimal literals** (digits of either case): unsized, value = the digits in base 16; rejected over their
    whole extent exactly when the value does not fit in 128 bits -/
theorem C11_hex (ds : List Char) (hne : ds ≠ []) (hall : ∀ c ∈ ds, isHex c = true) :
    lex asciiCls ('0' :: 'x' :: ds) =
      if digitsVal 16 ds < 2 ^ 128 then [.tok 0 (.Constant ⟨digitsVal 16 ds, .unlimited⟩) (2 + ds.length)]
      else [.err (.invalidConstant 0 (2 + ds.length))] := lex_hex ds hne hall

/-- **decimal literals**: unsized, value = the digits in base 10; rejected exactly when ≥ 2^128 -/
theorem C11_decimal (d0 d1 : Char) (ds : List Char) (h0 : isDec d0 = true) (h1 : isDec d1 = true)
    (hall : ∀ c ∈ ds, isDec c = true) :
    lex asciiCls (d0 :: d1 :: ds) =
      if digitsVal 10 (d0 :: d1 :: ds) < 2 ^ 128 then
        [.tok 0 (.Constant ⟨digitsVal 10 (d0 :: d1 :: ds), .unlimited⟩) (2 + ds.length)]
      else [.err (.invalidConstant 0 (2 + ds.length))] := lex_decimal d0 d1 ds h0 h1 hall

theorem C11_digit (d0 : Char) (h0 : isDec d0 = true) :
    lex asciiCls [d0] = [.tok 0 (.Constant ⟨d0.toNat - 48, .unlimited⟩) 1] := lex_digit d0 h0

/-- the digit values are the usual ones, in either case -/
example : digitVal '7' = 7 ∧ digitVal 'a' = 10 ∧ digitVal 'F' = 15 ∧ digitsVal 16 "1fE".toList = 510 ∧
    digitsVal 2 "0101".toList = 5 ∧ digitsVal 10 "340".toList = 340 := by decide

/-! ### comments -/

open Lexer in
/-- **C11, block comments**: `/*`, any text without `*/` (scanning starts at the opening `*`), `*/` yields no token, and the
    lexer goes on with exactly the text after the comment -/
theorem C11_block_comment (cls : CharCls) (hcls : PunctCls cls) (total fuel : Nat) (body rest : List Char) (off : Nat)
    (hnc : NoClose ('*' :: body)) :
    lexAll cls total (fuel + 1) ('/' :: '*' :: (body ++ '*' :: '/' :: rest)) off =
      lexAll cls total fuel rest (off + 4 + sizeOf' body) := by
  rw [lexAll, lexStep_block_comment cls hcls total body rest off hnc]
  rfl

open Lexer in
/-- **C11, `#` comments**: from `#` to the end of the line nothing is a token; the line end itself is read next -/
theorem C11_hash_comment (cls : CharCls) (hcls : PunctCls cls) (total fuel : Nat) (body : List Char) (nl : Char) (rest : List Char)
    (off : Nat) (hbody : ∀ c ∈ body, c ≠ '\n' ∧ c ≠ '\r') (hnl : nl = '\n' ∨ nl = '\r') :
    lexAll cls total (fuel + 1) ('#' :: (body ++ nl :: rest)) off =
      lexAll cls total fuel (nl :: rest) (off + 1 + sizeOf' body) := by
  rw [lexAll, lexStep_hash_comment cls hcls total body nl rest off hbody hnl]
  rfl

open Lexer in
/-- **C11, `//` comments**, likewise -/
theorem C11_slash_comment (cls : CharCls) (hcls : PunctCls cls) (total fuel : Nat) (body : List Char) (nl : Char) (rest : List Char)
    (off : Nat) (hbody : ∀ c ∈ body, c ≠ '\n' ∧ c ≠ '\r') (hnl : nl = '\n' ∨ nl = '\r') :
    lexAll cls total (fuel + 1) ('/' :: '/' :: (body ++ nl :: rest)) off =
      lexAll cls total fuel (nl :: rest) (off + 2 + sizeOf' body) := by
  rw [lexAll, lexStep_slash_comment cls hcls total body nl rest off hbody hnl]
  rfl

/-- the ASCII classification treats `/` and `#` as the lexer expects -/
example : Lexer.PunctCls Lexer.asciiCls := ⟨by decide, by decide, by decide, by decide⟩
/-- `/*a*/`: the text between the `/` and the closing `*/` has no `*/` in it -/
example : Lexer.NoClose ['*', 'a'] := by
  intro p q h
  match p, h with
  | [], h => simp at h
  | [_], h => simp at h
  | _ :: _ :: _, h => simp at h

open Lexer in
/-- **C11, blank space** (spaces, tabs, CR, LF and every other character the classification calls white space,
    whatever its length in bytes): it yields no token and the lexer goes on with the text after it -/
theorem C11_blank_space (cls : CharCls) (total : Nat) : ∀ (ws : List Char) (fuel : Nat) (rest : List Char) (off : Nat),
    (∀ c ∈ ws, cls.isWhitespace c = true) →
    lexAll cls total (fuel + ws.length) (ws ++ rest) off = lexAll cls total fuel rest (off + sizeOf' ws)
  | [], fuel, rest, off, _ => by simp [sizeOf'_nil]
  | c :: ws, fuel, rest, off, h => by
    have hc := h c List.mem_cons_self
    have e : fuel + (c :: ws).length = (fuel + ws.length) + 1 := by simp; omega
    rw [e, List.cons_append, lexAll]
    simp only [lexStep, hc, if_true]
    rw [List.nil_append, C11_blank_space cls total ws fuel rest (off + size c) (fun x hx => h x (List.mem_cons_of_mem _ hx)),
      sizeOf'_cons, Nat.add_assoc]

/-! ### every pair and every triple of binary operators -/

open Grouping in
/-- **C11, precedence and grouping of the parser model**: for every pair and every triple of binary operators written
    without parentheses between wires, the parser returns the one tree in which every operator's left operand binds
    tighter (or equally, on a level that groups left to right) and its right operand strictly tighter, by the documented
    levels (`level_documented`: the positions in `Spec.precTable`) -- and refuses the text exactly when no such tree
    exists, which is when two comparisons would chain.  (The real LALRPOP parser is compared with this model on the
    same pairs and triples, and on random expressions, by S-PARSE.) -/
theorem C11_pairs_and_triples_grouped :
    (allBinOps.all fun o1 => allBinOps.all fun o2 => agrees [o1, o2]) = true ∧
    (allBinOps.all fun o1 => allBinOps.all fun o2 => allBinOps.all fun o3 => agrees [o1, o2, o3]) = true :=
  ⟨pairs_grouped, triples_grouped⟩

open Grouping in
example : parseSk (toksOf 0 [.add, .mul]) = some (.bin .add (.leaf 0) (.bin .mul (.leaf 4) (.leaf 8))) := by decide +kernel
open Grouping in
example : parseSk (toksOf 0 [.sub, .sub]) = some (.bin .sub (.bin .sub (.leaf 0) (.leaf 4)) (.leaf 8)) := by decide +kernel
open Grouping in
example : parseSk (toksOf 0 [.eq, .lt]) = none := by decide +kernel
open Grouping in
example : parseSk (toksOf 0 [.eq, .land, .ne]) =
    some (.bin .land (.bin .eq (.leaf 0) (.leaf 4)) (.bin .ne (.leaf 8) (.leaf 12))) := by decide +kernel

/-- **C11, unary operators, slices and `in`** against every binary operator (the parser model, by kernel evaluation):
    a unary operator applies to the operand next to it only, in either operand position; a slice binds tighter than
    every binary operator on either side; a unary operator and a slice do not combine without parentheses; `in` lies
    between `|` and the comparisons. -/
theorem C11_unary_slice_in :
    (Grouping.allUnOps.all fun u => Grouping.allBinOps.all fun op =>
      Grouping.parseSk2 [(0, Grouping.unTok u, 1), Grouping.idT 2, (4, Grouping.tokOf op, 5), Grouping.idT 6] ==
        some (.bin op (.un u (.leaf 2)) (.leaf 6))) = true ∧
    (Grouping.allUnOps.all fun u => Grouping.allBinOps.all fun op =>
      Grouping.parseSk2 [Grouping.idT 0, (2, Grouping.tokOf op, 3), (4, Grouping.unTok u, 5), Grouping.idT 6] ==
        some (.bin op (.leaf 0) (.un u (.leaf 6)))) = true :=
  ⟨Grouping.unary_left, Grouping.unary_right⟩
