import Hcl.Graph.Kahn
import Hcl.Util.SExp

/-! Executable construction of the graph structures of `Hcl.Graph` from edge lists and
    logged iteration orders, and independent validity checks for the sorter's answers. -/

namespace GraphExec

def dedup (l : List Node) : List Node :=
  l.foldl (fun acc x => if acc.contains x then acc else acc ++ [x]) []

/-- successors of `u` in edge-insertion order -/
def succOf (edges : List (Node × Node)) (u : Node) : List Node :=
  dedup ((edges.filter (fun e => e.1 == u)).map (·.2))

def predOf (edges : List (Node × Node)) (v : Node) : List Node :=
  dedup ((edges.filter (fun e => e.2 == v)).map (·.1))

def allNodes (nodes : List Node) (edges : List (Node × Node)) : List Node :=
  dedup (nodes ++ edges.flatMap (fun e => [e.1, e.2]))

/-- use the logged order `logged` for the elements it mentions, then the rest of `base`;
    elements of `logged` that are not in `base` are dropped -/
def reorder (base logged : List Node) : List Node :=
  let l := dedup (logged.filter (fun x => base.contains x))
  l ++ base.filter (fun x => !l.contains x)

def lookupOrder (m : List (Node × List Node)) (u : Node) : List Node :=
  match m.lookup u with
  | some l => l
  | none => []

structure Request where
  nodes : List Node
  edges : List (Node × Node)          -- one entry per `insert` call, in call order
  kNodes : List Node := []
  kOut : List (Node × List Node) := []
  dNodes : List Node := []
  dOut : List (Node × List Node) := []

def Request.kgraph (r : Request) : KGraph :=
  let ns := allNodes r.nodes r.edges
  { nodes := reorder ns r.kNodes,
    succ := fun u => reorder (succOf r.edges u) (lookupOrder r.kOut u),
    preds := fun v => predOf r.edges v,
    numEdges := r.edges.length }

def Request.dgraph (r : Request) : Graph :=
  let ns := allNodes r.nodes r.edges
  { nodes := reorder ns (if r.dNodes.isEmpty then r.kNodes else r.dNodes),
    succ := fun u => reorder (succOf r.edges u) (lookupOrder r.dOut u) }

/-! ### independent checks (specification side) -/

/-- `u` reaches `v` by a non-empty path: iterate the successor closure |nodes| times -/
def reachFrom (edges : List (Node × Node)) (n : Nat) (u : Node) : List Node :=
  let step (front : List Node) : List Node := dedup (front ++ front.flatMap (succOf edges))
  Nat.rec (succOf edges u) (fun _ acc => step acc) n

def isCyclic (nodes : List Node) (edges : List (Node × Node)) : Bool :=
  let ns := allNodes nodes edges
  ns.any (fun u => (reachFrom edges ns.length u).contains u)

def hasEdge (edges : List (Node × Node)) (u v : Node) : Bool := edges.any (fun e => e.1 == u && e.2 == v)

/-- `order` is a permutation of the nodes in which every edge goes forward -/
def validOrder (nodes : List Node) (edges : List (Node × Node)) (order : List Node) : Bool :=
  let ns := allNodes nodes edges
  order.length == ns.length && ns.all order.contains && (dedup order).length == order.length &&
  edges.all (fun e => order.idxOf e.1 < order.idxOf e.2)

def validCycle (edges : List (Node × Node)) (c : List Node) : Bool :=
  match c with
  | [] => false
  | h :: _ =>
    let rec path : List Node → Bool
      | a :: b :: t => hasEdge edges a b && path (b :: t)
      | _ => true
    path c && hasEdge edges (c.getLast!) h

end GraphExec
