/-! Model of `Graph::find_cycle` (program.rs) with explicit iteration orders. -/

abbrev Node := String

structure Graph where
  nodes : List Node
  succ : Node → List Node     -- iteration order of `out_edges(cur)` as seen by find_cycle

abbrev PMap := Node → Option (Option Node)   -- `parents: HashMap<T, Option<T>>`

def PMap.set (p : PMap) (k : Node) (v : Option Node) : PMap := fun x => if x = k then some v else p x

structure DState where
  stack : List (Option Node × Node)   -- VecDeque, front = head
  parents : PMap

/-- `back_path` construction: walk parent links from `last` until `cur` or a root.
    Returns the path (most recent first = the Rust vector reversed) -/
def walk (p : PMap) (cur : Node) : Nat → Node → List Node → List Node
  | 0, _, acc => acc
  | fuel+1, last, acc =>
    if last = cur then acc else
    match p last with
    | some (some g) => walk p cur fuel g (g :: acc)
    | _ => acc

inductive StepResult where
  | cont (s : DState)
  | found (c : List Node)
  | done

/-- one iteration of the `while let Some(..) = stack.pop_front()` loop; `n` bounds chain length -/
def step (g : Graph) (n : Nat) (s : DState) : StepResult :=
  match s.stack with
  | [] => .done
  | (mp, cur) :: rest =>
    let fresh := (s.parents cur).isNone
    -- push_front each out edge in iteration order: the last iterated ends up at the front
    let stack' := if fresh then (g.succ cur).reverse.map (fun o => (some cur, o)) ++ rest else rest
    match mp with
    | some parent =>
      if !fresh then
        let path := walk s.parents cur n parent [parent]   -- head = last element of back_path
        match path with
        | h :: _ => if h = cur then .found path else .cont ⟨stack', s.parents⟩
        | [] => .cont ⟨stack', s.parents⟩
      else .cont ⟨stack', s.parents.set cur mp⟩
    | none => .cont ⟨stack', s.parents.set cur mp⟩

def run (g : Graph) (n : Nat) : Nat → DState → Option (Option (List Node))
  | 0, _ => none                       -- fuel exhausted (shown unreachable)
  | fuel+1, s =>
    match step g n s with
    | .done => some none               -- the Rust code panics here
    | .found c => some (some c)
    | .cont s' => run g n fuel s'

def findCycle (g : Graph) : Option (Option (List Node)) :=
  let n := g.nodes.length + 1
  let e := (g.nodes.map (fun u => (g.succ u).length)).sum
  run g n (2 * g.nodes.length + e + 1) ⟨g.nodes.map (fun u => (none, u)), fun _ => none⟩

/-- `c` is a cycle of `g`: consecutive elements are edges and the last closes on the first -/
def IsPath (g : Graph) : List Node → Prop
  | [] => True
  | [_] => True
  | a :: b :: t => b ∈ g.succ a ∧ IsPath g (b :: t)

def IsCycle (g : Graph) (c : List Node) : Prop :=
  match c with
  | [] => False
  | h :: _ => IsPath g c ∧ h ∈ g.succ (c.getLast!)

