import Hcl.Proofs.SpecFaultsPlain
open Rust

/-! # The specification's rules and values against the model's checker and evaluator

Generic in the tables: `(Γ, κ)` are the model's width context and table of constants, `(sΓ, sσ)` the specification's,
`K` says which names are constants.  Under the hypothesis that the conditions of case expressions are *plain*
(`SF.Plain`: certain to fail to evaluate without the wires, or a constant expression without a nested case expression) the specification's always-true test is the model's `alwaysTrue`, hence `Spec.typeOf` with the specification's
test is the model's `check`. -/

namespace SF

/-- the specification's "always true" over a set `K` of constant names: a constant expression with a non-zero value -/
def truthOf (K : String → Bool) (Γ : String → Option Width) (σ : String → Nat) (e : Ex) : Bool :=
  (refs e).all K && (match Spec.dv Γ σ e with | some v => v != 0 | none => false)

/-- what the bridge needs of the model's tables: widths are proper, exactly the constants have values, and a constant's
    value fits the width the context gives it -/
structure Tables (K : String → Bool) (Γ : Ctx) (κ : Env) : Prop where
  ctx : CtxOK Γ
  outside : ∀ n, K n = false → κ n = none
  env : ∀ n, K n = true → ∀ w, Γ n = some w → ∃ v, κ n = some ⟨v, w⟩ ∧ v < w.card

theorem ne_zero_eq_pos (v : Nat) : (v != 0) = decide (v > 0) := by
  cases v <;> simp

section
variable (fl : Flags) (K : String → Bool) (Γ : Ctx) (κ : Env) (ht : Tables K Γ κ)
  (sΓ : String → Option Width) (sσ : String → Nat)
include ht

/-- **one condition**: for a plain, well-typed condition the two always-true tests agree -/
theorem cond_truth (c : Ex) (hΓ : ∀ n ∈ refs c, sΓ n = Γ n) (hσ : ∀ n ∈ refs c, K n = true → sσ n = val κ n)
    (he : Plain K c = true) (hwf : wfEx c = true) (f : Ex → Bool) (hty : Spec.typeOf fl sΓ f c ≠ none) :
    truthOf K sΓ sσ c = alwaysTrue fl κ c := by
  by_cases hst : stuck K c = true
  · -- evaluation fails, and the condition is not a constant expression
    obtain ⟨n, hn, hk⟩ := stuck_ref K c hst
    have hf : (refs c).all K = false := by
      rw [List.all_eq_false]
      exact ⟨n, hn, by simp [hk]⟩
    unfold truthOf
    rw [hf, alwaysTrue_stuck_false fl κ K ht.outside c hst]
    rfl
  · unfold Plain at he
    simp only [Bool.or_eq_true, Bool.and_eq_true] at he
    obtain ⟨hmf, hall⟩ : muxFree c = true ∧ (refs c).all K = true := by
      rcases he with h | h
      · exact absurd h hst
      · exact h
    have hallm : ∀ n ∈ refs c, K n = true := List.all_eq_true.mp hall
    have h1 : Spec.typeOf fl sΓ f c = Spec.typeOf fl sΓ (alwaysTrue fl κ) c := by
      apply typeOf_congr_isTrue
      intro c' hc'
      rw [conds_muxFree c hmf] at hc'; cases hc'
    have h2 : Spec.typeOf fl sΓ (alwaysTrue fl κ) c = Spec.typeOf fl Γ (alwaysTrue fl κ) c :=
      typeOf_congr_ctx fl sΓ Γ _ c hΓ
    rw [h1, h2, ← check_eq_typeOf] at hty
    cases hck : check fl Γ κ c with
    | error ds => rw [hck] at hty; exact absurd rfl hty
    | ok w =>
      have hon : EnvOn Γ κ (refs c) := fun n hn w hw => ht.env n (hallm n hn) w hw
      obtain ⟨_, _, hcorr⟩ := ev_correct (fl := fl) (Γ := Γ) (κ := κ) (σ := κ) ht.ctx c w hon hwf hck
      rw [fixMux_muxFree fl Γ κ c hmf] at hcorr
      have hdv : Spec.dv sΓ sσ c = Spec.dv Γ (val κ) c :=
        dv_congr sΓ Γ sσ (val κ) c hΓ (fun n hn => hσ n hn (hallm n hn))
      unfold truthOf alwaysTrue
      rw [hall, hdv]
      cases hd : Spec.dv Γ (val κ) c with
      | none =>
        rw [hd] at hcorr
        simp only at hcorr
        rw [hcorr]; rfl
      | some v =>
        rw [hd] at hcorr
        simp only at hcorr
        rw [hcorr.1]
        simp only [Bool.true_and]
        exact ne_zero_eq_pos v

/-- **the width rules**: with plain conditions, the specification's rules (with its own always-true test) give exactly
    what the model's checker gives -/
theorem typeOf_eq_check (e : Ex) (hΓ : ∀ n ∈ refs e, sΓ n = Γ n) (hσ : ∀ n ∈ refs e, K n = true → sσ n = val κ n)
    (hc : ∀ c ∈ conds e, Plain K c = true) (hwf : wfEx e = true) :
    Spec.typeOf fl sΓ (truthOf K sΓ sσ) e = okOf (check fl Γ κ e) := by
  rw [check_eq_typeOf, ← typeOf_congr_ctx fl sΓ Γ _ e hΓ]
  apply typeOf_congr_isTrue
  intro c hcm hty
  exact cond_truth fl K Γ κ ht sΓ sσ c (fun n hn => hΓ n (refs_conds e c hcm n hn))
    (fun n hn => hσ n (refs_conds e c hcm n hn)) (hc c hcm) (wfEx_conds e hwf c hcm) _ hty

/-- **the values**: a checked expression over constants evaluates (after the width fix-up) to the specification's value
    at the specification's width, or both report a division by zero -/
theorem dv_eq_ev (e : Ex) (hΓ : ∀ n ∈ refs e, sΓ n = Γ n) (hσ : ∀ n ∈ refs e, K n = true → sσ n = val κ n)
    (hall : ∀ n ∈ refs e, K n = true) (hwf : wfEx e = true) (w : Width) (hck : check fl Γ κ e = .ok w) :
    w.ok ∧ w = Spec.sw sΓ e ∧
    (match Spec.dv sΓ sσ e with
     | some v => ev fl κ (fixMux fl Γ κ e) = .ok ⟨v, w⟩ ∧ v < w.card
     | none => ev fl κ (fixMux fl Γ κ e) = .error .divideByZero) := by
  have hon : EnvOn Γ κ (refs e) := fun n hn w hw => ht.env n (hall n hn) w hw
  obtain ⟨h1, h2, hcorr⟩ := ev_correct (fl := fl) (Γ := Γ) (κ := κ) (σ := κ) ht.ctx e w hon hwf hck
  have hdv : Spec.dv sΓ sσ e = Spec.dv Γ (val κ) e :=
    dv_congr sΓ Γ sσ (val κ) e hΓ (fun n hn => hσ n hn (hall n hn))
  refine ⟨h1, ?_, ?_⟩
  · rw [h2]; exact (sw_congr sΓ Γ e hΓ).symm
  · rw [hdv]; exact hcorr

end
end SF
