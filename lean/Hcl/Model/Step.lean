import Hcl.Model.Program
open Rust

/-! Model of the simulator: `Memory::read/write`, `Program::initial_state`,
    `process_register_banks`, `RunningProgram::step_with_output`, `done`, `run` (program.rs). -/

def U64 : Nat := 2 ^ 64

/-- `BTreeMap<u64,u8>`: association list kept sorted by address, one entry per address -/
abbrev Mem := List (Nat × Nat)

namespace Mem
def get (m : Mem) (a : Nat) : Nat := (m.lookup a).getD 0
def insert : Mem → Nat → Nat → Mem
  | [], a, v => [(a, v)]
  | (k, x) :: rest, a, v =>
    if a < k then (a, v) :: (k, x) :: rest
    else if a = k then (a, v) :: rest
    else (k, x) :: insert rest a v

/-- `Memory::read(address, bytes)`: byte `k` of the result is the byte at `address + k` (wrapping at 2^64);
    the Rust loop ORs in `byte << 8k` for `k = 0 .. bytes-1` -/
def read (m : Mem) (addr : Nat) : Nat → Nat
  | 0 => 0
  | k+1 => read m addr k + m.get ((addr + k) % U64) * 256 ^ k

/-- `Memory::write(address, value, bytes)`: byte `k` of `value` goes to `address + k`, for `k = 0 .. bytes-1` in order -/
def write (m : Mem) (addr value : Nat) : Nat → Mem
  | 0 => m
  | k+1 => (write m addr value k).insert ((addr + k) % U64) ((value / 256 ^ k) % 256)
end Mem

structure State where
  values : AMap WireValue
  regs : List Nat               -- 16 program registers
  mem : Mem
  cycle : Nat := 0
  lastStatus : Option Nat := none
  deriving Inhabited

/-- `Program::initial_state` -/
def Program.initialValues (p : Program) : E (AMap WireValue) :=
  p.banks.foldlM (fun (vals : AMap WireValue) bank => do
    let vals ← bank.signals.foldlM (fun (vals : AMap WireValue) sig =>
      match bank.defaults.get? sig.2.1 with
      | some v => pure ((vals.insert sig.1 v).insert sig.2.1 v)
      | none => throw (.fail (.panic "unwrap on missing default"))) vals
    pure ((vals.insert bank.bubble ⟨0, .bits 1⟩).insert bank.stall ⟨0, .bits 1⟩)) p.constants

def getOrPanic (vals : AMap WireValue) (n : String) : E WireValue :=
  match vals.get? n with
  | some v => pure v
  | none => throw (.fail (.panic ("unwrap on missing wire " ++ n)))

def listSet (l : List Nat) (i v : Nat) : List Nat := l.set i v

/-- one action of `step_with_output` (without the optional printing) -/
def execAction (fl : Flags) (s : State) : Action → E State
  | .assign name e w => do
      let v ← ev fl s.values.toEnv e
      let r ← asWidth v w
      pure { s with values := s.values.insert name r }
  | .readMem isRead address out bytes _ => do
      let doRead ← match isRead with
        | none => pure true
        | some wire => do let v ← getOrPanic s.values wire; pure (v.bits > 0)
      if doRead then do
        let a ← getOrPanic s.values address
        let v : WireValue := ⟨s.mem.read (a.bits % U64) bytes, .bits (bytes * 8)⟩
        pure { s with values := s.values.insert out v }
      else do
        let z ← asWidth ⟨0, .unlimited⟩ (.bits (bytes * 8))
        pure { s with values := s.values.insert out z }
  | .writeMem isWrite address inp bytes => do
      let doWrite ← match isWrite with
        | none => pure true
        | some wire => do let v ← getOrPanic s.values wire; pure (v.bits > 0)
      if doWrite then do
        let a ← getOrPanic s.values address
        let i ← getOrPanic s.values inp
        pure { s with mem := s.mem.write (a.bits % U64) i.bits bytes }
      else pure s
  | .setStatus inWire => do
      let v ← getOrPanic s.values inWire
      pure { s with lastStatus := some (v.bits % 256) }
  | .readReg number out => do
      let n ← getOrPanic s.values number
      let idx := n.bits % U64
      let v : Nat := if idx < s.regs.length then s.regs.getD idx 0 else 0
      pure { s with values := s.values.insert out ⟨v, .bits 64⟩ }
  | .writeReg number inp => do
      let n ← getOrPanic s.values number
      let idx := n.bits % U64
      if idx < s.regs.length ∧ idx ≠ 15 then do
        let i ← getOrPanic s.values inp
        pure { s with regs := listSet s.regs idx (i.bits % U64) }
      else pure s

def execActions (fl : Flags) : List Action → State → E State
  | [], s => pure s
  | a :: rest, s => do
      let s' ← execAction fl s a
      execActions fl rest s'

def setOrPanic (vals : AMap WireValue) (n : String) (v : WireValue) : E (AMap WireValue) :=
  if vals.contains n then pure (vals.insert n v) else throw (.fail (.panic ("get_mut on missing wire " ++ n)))

/-- `*values.get_mut(k).unwrap() = *v` for one default -/
def setDefault (vals : AMap WireValue) (p : String × WireValue) : E (AMap WireValue) := setOrPanic vals p.1 p.2

/-- copy one register's input to its output -/
def loadOne (vals : AMap WireValue) (sig : String × String × Width) : E (AMap WireValue) := do
  let nv ← getOrPanic vals sig.1
  setOrPanic vals sig.2.1 nv

/-- the body of the `for bank in &self.register_banks` loop -/
def processBank (vals : AMap WireValue) (bank : RegisterBank) : E (AMap WireValue) := do
  let st ← getOrPanic vals bank.stall
  let bu ← getOrPanic vals bank.bubble
  if bu.bits > 0 then bank.defaults.foldlM setDefault vals
  else if !(st.bits > 0) then bank.signals.foldlM loadOne vals
  else pure vals

/-- `process_register_banks` -/
def processBanks (banks : List RegisterBank) (vals : AMap WireValue) : E (AMap WireValue) :=
  banks.foldlM processBank vals

/-- `step_with_output` -/
def stepCycle (fl : Flags) (p : Program) (s : State) : E State := do
  let s ← execActions fl p.actions s
  let vals ← processBanks p.banks s.values
  pure { s with values := vals, cycle := s.cycle + 1 }

/-- `status_or_default(default)` -/
def statusOr (s : State) (d : Nat) : Nat :=
  match s.values.get? "Stat" with
  | some v => v.bits % 256
  | none => d

/-- `done()` -/
def isDone (s : State) (timeout : Nat) : Bool :=
  (statusOr s 1 != 1 && statusOr s 1 != 0) || s.cycle ≥ timeout

/-- `run()`: fuel `timeout + 1 - cycle` suffices (see theorem); `none` = fuel exhausted -/
def runLoop (fl : Flags) (p : Program) (timeout : Nat) : Nat → State → Option (E State)
  | 0, _ => none
  | fuel+1, s =>
    if isDone s timeout then some (pure s) else
    match stepCycle fl p s with
    | .ok s' => runLoop fl p timeout fuel s'
    | .error e => some (throw e)

def State.init (p : Program) (mem : Mem) : E State := do
  let vals ← p.initialValues
  pure { values := vals, regs := List.replicate 16 0, mem := mem }

/-- `n` calls of `step()` -/
def runN (fl : Flags) (p : Program) : Nat → State → E State
  | 0, s => pure s
  | n+1, s => do
      let s' ← stepCycle fl p s
      runN fl p n s'

/-! ### the final report of `dump_y86` -/

def halted (s : State) : Bool := statusOr s 1 == 2
def timedOut (s : State) (timeout : Nat) : Bool := s.cycle ≥ timeout

inductive Banner where
  | halted | timedOut (cycles : Nat) | error | between (cycle : Nat)
  deriving Repr, DecidableEq

/-- header selection of `dump_y86` -/
def banner (s : State) (timeout : Nat) : Banner :=
  if halted s then .halted
  else if timedOut s timeout then .timedOut s.cycle
  else if isDone s timeout then .error
  else .between s.cycle

/-- the `Cycles run:` and `Error code:` lines: (printed cycle count, printed status code) -/
def reportLines (s : State) (timeout : Nat) : Option Nat × Option Nat :=
  if isDone s timeout && !timedOut s timeout then
    (some s.cycle, if !halted s && !timedOut s timeout then some (statusOr s 255) else none)
  else (none, none)
